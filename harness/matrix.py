"""Decision procedure for table / input-space properties:
   1 TLC enumerates the abstract input space (initial states of an enumeration spec) and prints every row as JSON
   2 the adapter renders each row into real calls and records what it observed (a trace of 1..n steps)
   3 the TLC trace monitor judges every observation against the contract operators
   4 canary: a corrupted observation must be rejected."""
import json, copy
from . import tlc, pool, monitor
from .report import Run, Machinery


def enumerate_rows(run, module, cfg, tag="ROW", workers=1, heap="6g", timeout=1800, env=None):
    res = tlc.run(module, cfg, run.work + "/enum_" + module, workers=workers, heap=heap, timeout=timeout, env=env)
    if not res.ok:
        raise Machinery("TLC enumeration %s/%s failed: %s\n%s" % (module, cfg, res.errors or res.violated, res.out[-2500:]))
    rows = tlc.json_lines(res, tag)
    if not rows:
        raise Machinery("TLC enumeration %s/%s printed no rows" % (module, cfg))
    run.add_design(res, module + ":" + cfg)
    return rows


def judge(run, trace_module, adapter, fn, items, sig, corrupt, what, nontrivial=None, fresh_process=False, chunk=1000,
          sample_fmt=None, nproc=None, hard_timeout=None):
    kw = {'fresh_every': 1, 'chunksize': 1, 'initname': None} if fresh_process else {}
    if nproc:
        kw['nproc'] = nproc
    if hard_timeout:
        kw['hard_timeout'] = hard_timeout
    for i, it in enumerate(items):
        it.setdefault("id", i)
    traces = pool.map_items(adapter, fn, items, **kw)
    if pool.HANGS:
        run.notes["calls_that_did_not_return"] = len(pool.HANGS)      # the workers were killed; each is an observation (on_hang)
    traces = [t for t in traces if t is not None and not t.get("skip")]
    skipped = len(items) - len(traces)
    if not traces:
        raise Machinery("no traces produced for %s" % trace_module)
    bad, judged = monitor.judge(trace_module, traces, run.work + "/mon_" + trace_module, chunk=chunk)
    by_id = {t["id"]: t for t in traces}
    for tid, step, clause in bad:
        t = by_id[tid]
        run.violation(sig(t, step, clause), "%s fails at step %d of case %s: %s" % (clause, step, tid, what(t, step)),
                      {"adapter": adapter, "fn": fn, "id": tid, "item": t.get("item"), "failing_step": step, "clause": clause})
    canary = None
    badids = {b[0] for b in bad}
    for t in traces:
        if t["id"] not in badids:
            c = corrupt(copy.deepcopy(t))
            if c is not None:
                canary = c
                break
    if canary is None and not bad:
        raise Machinery("no trace available for the canary (%s)" % trace_module)
    if canary is None:
        # every candidate trace was rejected: the rejections show the binding is alive and must be reported as violations
        cbad = [(0, 0, "skipped: no accepted trace left to corrupt (%d rejected)" % len(bad))]
    else:
        cbad, _ = monitor.judge(trace_module, [canary], run.work + "/canary_" + trace_module, jvms=1)
    if not cbad:
        raise Machinery("canary: corrupted observation accepted by %s - the binding is broken" % trace_module)
    nt = set()
    for t in traces:
        k = nontrivial(t) if nontrivial else json.dumps(t.get("item"), sort_keys=True)
        if k:
            nt.add(k)
    run.cov["traces_validated_against_impl"] += len(traces)
    run.cov["evaluations"] += sum(max(1, len(t["steps"])) for t in traces)
    run.cov["distinct_nontrivial"] += len(nt)
    fmt = sample_fmt or (lambda t: {"item": t.get("item"), "steps": t["steps"][:2]})
    run.cov["samples"] += [fmt(traces[i]) for i in (0, len(traces) // 2, len(traces) - 1)][:3]
    run.notes.setdefault("monitors", {})[trace_module] = {"cases": len(traces), "not_applicable_cells": skipped, "states_judged": judged,
                                                          "canary": "rejected with %s" % cbad[0][2]}
    return traces
