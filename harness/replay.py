"""./check <id> --replay <violation file>: re-executes the recorded actions on the real code and prints every step."""
import json, importlib


def replay(path):
    v = json.load(open(path))
    r = v["replay"]
    print("property %s  key %s\n%s" % (v["property"], v["key"], v["what"]))
    mod = importlib.import_module(r["adapter"])
    item = {"id": r.get("id", 0), "actions": r["actions"]}
    item.update(r.get("variant", {}))
    tr = getattr(mod, r.get("fn", "run_trace"))(item)
    print("init:", json.dumps(tr["init"]))
    for i, s in enumerate(tr["steps"], 1):
        print("step %d: %s\n   out=%s ret=%r\n   post=%s" % (i, json.dumps(s["a"]), s["out"], s.get("ret"), json.dumps(s["post"])))
    return 0
