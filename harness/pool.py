"""Run an adapter function over many inputs in worker processes that import cssutils from /repo."""
import os, sys, multiprocessing as mp, importlib, traceback, time, resource

_fn = None


def _init(modname, fname, initname):
    global _fn
    sys.setrecursionlimit(1000)  # the interpreter default: "an environment bound" (C01)
    mod = importlib.import_module(modname)
    if initname and hasattr(mod, initname):
        getattr(mod, initname)()
    _fn = getattr(mod, fname)


def _call(item):
    try:
        return _fn(item)
    except BaseException as e:  # adapter bugs must surface, never be swallowed as acceptance
        return {"__adapter_error__": "".join(traceback.format_exception(type(e), e, e.__traceback__))[-2000:]}


def map_items(modname, fname, items, nproc=None, initname="init", chunksize=None, fresh_every=None):
    """items -> results, in order.  fresh_every=N recycles workers after N items (bounds state leakage)."""
    nproc = nproc or min(16, os.cpu_count() or 1)
    if not items:
        return []
    if chunksize is None:
        chunksize = max(1, min(200, len(items) // (nproc * 4) or 1))
    ctx = mp.get_context("fork")
    with ctx.Pool(nproc, initializer=_init, initargs=(modname, fname, initname), maxtasksperchild=fresh_every) as p:
        res = p.map(_call, items, chunksize=chunksize)
    errs = [r for r in res if isinstance(r, dict) and "__adapter_error__" in r]
    if errs:
        raise RuntimeError("adapter error (%d of %d items), first:\n%s" % (len(errs), len(items), errs[0]["__adapter_error__"]))
    return res
