"""Run an adapter function over many inputs in worker processes that import cssutils from /repo.

The pool is our own (fork + pipes) rather than multiprocessing.Pool because of one requirement: a call into the implementation
that never returns must become an *observation* ("did not return") instead of hanging the check.  A signal handler cannot do
that - CPython runs handlers between byte codes, and a regular expression that backtracks for ever is a single C call that also
keeps the GIL, so neither SIGALRM nor a watchdog thread in the worker ever gets to run.  The parent therefore watches the
progress of every worker and kills the one that makes none for `hard_timeout` seconds; the item it was working on is answered
by the adapter's `on_hang(item)` (a trace saying that the call did not return - judged by the monitor like any other
observation), or, for adapters that have none, reported as a machinery failure.  After `max_hangs` such kills the rest of the
batch is abandoned (answered None) - the violations found so far are reported."""
import os, sys, importlib, traceback, time, collections, multiprocessing as mp
from multiprocessing.connection import wait

_fn = None
HANGS = []          # (module, function, item id) of every item a worker had to be killed on, for the evidence


def _init(modname, fname, initname):
    global _fn
    sys.setrecursionlimit(1000)  # the interpreter default: "an environment bound" (C01)
    mod = importlib.import_module(modname)
    if initname and hasattr(mod, initname):
        getattr(mod, initname)()
    _fn = getattr(mod, fname)


def _call(item):
    try:
        return _fn(item)
    except BaseException as e:  # adapter bugs must surface, never be swallowed as acceptance
        return {"__adapter_error__": "".join(traceback.format_exception(type(e), e, e.__traceback__))[-2000:]}


def _worker(conn, modname, fname, initname):
    try:
        _init(modname, fname, initname)
        while True:
            chunk = conn.recv()
            if chunk is None:
                break
            for idx, item in chunk:
                conn.send((idx, _call(item)))
            conn.send("done")
    except (EOFError, KeyboardInterrupt, BrokenPipeError):
        pass
    finally:
        os._exit(0)


class _W:
    def __init__(self, ctx, args):
        self.conn, child = ctx.Pipe()
        self.proc = ctx.Process(target=_worker, args=(child,) + args, daemon=True)
        self.proc.start()
        child.close()
        self.chunk, self.pos, self.last, self.served = None, 0, time.time(), 0

    def give(self, chunk):
        self.chunk, self.pos, self.last = chunk, 0, time.time()
        self.conn.send(chunk)

    def stop(self, kill=False):
        try:
            if kill:
                self.proc.kill()
            else:
                self.conn.send(None)
        except (OSError, ValueError):
            pass
        self.proc.join(5)
        if self.proc.is_alive():
            self.proc.kill()
            self.proc.join(5)
        self.conn.close()


def map_items(modname, fname, items, nproc=None, initname="init", chunksize=None, fresh_every=None, hard_timeout=None, max_hangs=6):
    """items -> results, in order.  fresh_every=N recycles a worker after N chunks (bounds state leakage)."""
    nproc = nproc or min(16, os.cpu_count() or 1)
    if not items:
        return []
    hard_timeout = hard_timeout or float(os.environ.get("VERIF_HARD_TIMEOUT", "120"))
    if chunksize is None:
        chunksize = max(1, min(200, len(items) // (nproc * 4) or 1))
    ctx = mp.get_context("fork")
    args = (modname, fname, initname)
    todo = collections.deque([[(i, items[i]) for i in range(s, min(s + chunksize, len(items)))] for s in range(0, len(items), chunksize)])
    res = [None] * len(items)
    hung, abandoned = [], False
    workers = []
    try:
        for _ in range(min(nproc, len(todo))):
            w = _W(ctx, args)
            w.give(todo.popleft())
            workers.append(w)
        while workers:
            ready = wait([w.conn for w in workers], timeout=1.0)
            now = time.time()
            for w in list(workers):
                if w.conn in ready:
                    try:
                        msg = w.conn.recv()
                    except (EOFError, OSError):
                        idx = w.chunk[w.pos][0] if w.chunk and w.pos < len(w.chunk) else None
                        raise RuntimeError("worker of %s.%s died while working on item %s" % (modname, fname, idx))
                    w.last = now
                    if msg == "done":
                        w.served += 1
                        w.chunk = None
                        if not todo or abandoned:
                            w.stop()
                            workers.remove(w)
                        elif fresh_every and w.served >= fresh_every:
                            w.stop()
                            workers.remove(w)
                            nw = _W(ctx, args)
                            nw.give(todo.popleft())
                            workers.append(nw)
                        else:
                            w.give(todo.popleft())
                    else:
                        idx, r = msg
                        res[idx] = r
                        w.pos += 1
                elif w.chunk is not None and now - w.last > hard_timeout:
                    # no progress: the call does not return.  Kill the worker, answer for the item, requeue the rest of its chunk
                    idx, item = w.chunk[w.pos]
                    rest = w.chunk[w.pos + 1:]
                    w.stop(kill=True)
                    workers.remove(w)
                    hung.append(idx)
                    HANGS.append((modname, fname, item.get("id", idx) if isinstance(item, dict) else idx))
                    if len(hung) >= max_hangs:
                        abandoned = True
                        todo.clear()
                    else:
                        if rest:
                            todo.appendleft(rest)
                        if todo:
                            nw = _W(ctx, args)
                            nw.give(todo.popleft())
                            workers.append(nw)
    finally:
        for w in workers:
            w.stop(kill=True)
    if hung:
        mod = importlib.import_module(modname)
        on_hang = getattr(mod, "on_hang", None)
        if on_hang is None:
            raise RuntimeError("%s.%s did not return within %.0f s on %d item(s), first: %r" % (
                modname, fname, hard_timeout, len(hung), items[hung[0]]))
        for idx in hung:
            res[idx] = on_hang(items[idx], fname)
    errs = [r for r in res if isinstance(r, dict) and "__adapter_error__" in r]
    if errs:
        raise RuntimeError("adapter error (%d of %d items), first:\n%s" % (len(errs), len(items), errs[0]["__adapter_error__"]))
    if not abandoned and any(r is None for r in res) and not hung:
        # adapters may return None for "not applicable"; that is theirs to say - nothing to do here
        pass
    return res
