"""Batch trace monitoring in TLC: traces (ndjson) are judged by spec/<X>Trace.tla (instances of Monitor.tla)."""
import json, os, re
from concurrent.futures import ThreadPoolExecutor
from . import tlc
from .report import Machinery


def _clean(x):
    """TLC's Json module rejects null and truncates floats: an observation holding either must reach the monitor (and be judged
    unequal to what the contract expects) instead of crashing it"""
    if x is None:
        return "#null"
    if isinstance(x, float):
        return "#float:%r" % x
    if isinstance(x, dict):
        return {k: _clean(v) for k, v in x.items()}
    if isinstance(x, (list, tuple)):
        return [_clean(v) for v in x]
    return x


def _parse(res, n_expected_traces, expected):
    bad = []
    # TLC wraps long tuples over several lines: match across line breaks, and count the markers independently
    for m in re.finditer(r'<<\s*"BAD",\s*("[^"]*"|\d+),\s*(\d+),\s*"([^"]*)"\s*>>', res.out):
        tid = m.group(1)
        tid = json.loads(tid) if tid.startswith('"') else int(tid)
        bad.append((tid, int(m.group(2)), m.group(3)))
    if len(bad) != len(re.findall(r'<<\s*"BAD",', res.out)):
        raise Machinery("trace monitor printed %d BAD markers but %d could be read\n%s" % (len(re.findall(r'<<\s*"BAD",', res.out)), len(bad), res.out[-1500:]))
    m = re.search(r'<<"MONITOR", (\d+), (\d+)>>', res.out)
    if res.rc != 0 or res.errors or not m:
        raise Machinery("trace monitor failed rc=%s %s\n%s" % (res.rc, res.errors, res.out[-3000:]))
    ntr, distinct = map(int, m.groups())
    if ntr != n_expected_traces:
        raise Machinery("monitor loaded %d traces, expected %d" % (ntr, n_expected_traces))
    if not bad and distinct != expected:
        raise Machinery("monitor consumed %d states of %d but reported no BAD trace" % (distinct, expected))
    return bad, distinct


def judge(trace_module, traces, work, chunk=1000, jvms=16, cfg="Monitor.cfg", heap="2g"):
    """-> (bad: list of (trace id, step index, clause), states judged).  Every verdict is TLC's."""
    os.makedirs(work, exist_ok=True)
    chunks = [traces[i:i + chunk] for i in range(0, len(traces), chunk)]
    files = []
    for i, c in enumerate(chunks):
        p = os.path.join(work, "traces_%s_%04d.ndjson" % (trace_module, i))
        with open(p, "w") as f:
            for t in c:
                f.write(json.dumps(_clean(t), separators=(",", ":")) + "\n")
        files.append((p, len(c), sum(len(t['steps']) + 1 for t in c)))

    def one(a):
        i, (p, n, exp) = a
        res = tlc.run(trace_module, cfg, os.path.join(work, "mon%04d" % i), workers=1, env={"TRACE_FILE": p}, heap=heap)
        return _parse(res, n, exp)

    bad, states = [], 0
    with ThreadPoolExecutor(jvms) as ex:
        for b, d in ex.map(one, enumerate(files)):
            bad += b
            states += d
    return bad, states
