"""Generic decision procedure for history properties:
   1 TLC design check of the machine (exhaustive, small constants)
   2 TLC behaviour generation: one shortest history per reachable abstract state + the action alphabet
   3 transition tour (every reachable state x every action) + seeded random walks, replayed on the real objects
   4 TLC trace monitor judges every recorded step against the contract
   5 canary: a recorded trace with one corrupted field must be rejected."""
import json, random, copy
from . import tlc, pool, monitor
from .report import Run, Machinery


def generate(run, machine, gen_cfg, state_key="s"):
    res = tlc.run(machine, gen_cfg, run.work + "/gen", workers=1, heap="6g")
    if not res.ok:
        raise Machinery("behaviour generation failed: %s\n%s" % (res.errors or res.violated, res.out[-2000:]))
    alpha = tlc.json_lines(res, "ALPHABET")
    hists = tlc.json_lines(res, "HIST")
    if not alpha or not hists:
        raise Machinery("behaviour generation printed nothing")
    # TLC prints one line per generated successor: the BFS history of the predecessor state plus one ENABLED
    # action.  All lines together are a transition tour: every explored state x every action enabled there.
    states, seen, items = set(), set(), []
    for h in hists:
        states.add(json.dumps(h[state_key], sort_keys=True))
        k = json.dumps(h["h"], sort_keys=True)
        if h["h"] and k not in seen:
            seen.add(k)
            items.append(h["h"])
    return alpha[0], items, len(states), res


def tour(items, cap, rng):
    exhaustive = True
    if cap and len(items) > cap:
        items = list(items)
        rng.shuffle(items)
        items = items[:cap]
        exhaustive = False
    return items, exhaustive


def walks(run, machine, gen_cfg, n, length, seed, overrides=None):
    """random behaviours of the machine produced by TLC's simulator (they respect the machine's guards)"""
    import os, re
    if n <= 0:
        return []
    src = open(os.path.join(tlc.SPEC, gen_cfg)).read()
    lines = [l for l in src.splitlines() if not re.match(r"\s*(CONSTRAINT|VIEW|INVARIANT|PROPERTY)\b", l)]
    lines = [re.sub(r"MaxHist\s*=\s*\d+", "MaxHist = %d" % length, l) for l in lines]
    lines = [re.sub(r"Emit\s*=\s*TRUE", "Emit = FALSE", l) for l in lines]
    for k, v in (overrides or {}).items():      # constants that only the simulated walks widen (e.g. one more rule than the tour)
        lines = [re.sub(r"\b%s\s*=\s*\S+" % k, "%s = %s" % (k, v), l) for l in lines]
    lines.append("INVARIANT EmitWalk")
    cfg = os.path.join(run.work, "sim_%s.cfg" % machine)
    os.makedirs(run.work, exist_ok=True)
    with open(cfg, "w") as f:
        f.write("\n".join(lines) + "\n")
    res = tlc.run(machine, cfg, run.work + "/sim", workers=1, simulate="num=%d" % n,
                  args=["-depth", str(length + 1), "-seed", str(seed + 1)], timeout=600)
    ws = tlc.json_lines(res, "WALK")
    if res.rc != 0 or res.errors or not ws:
        raise Machinery("TLC simulation failed rc=%s %s\n%s" % (res.rc, res.errors, res.out[-1500:]))
    # the simulator evaluates the printing invariant on every candidate successor, so there are more lines than walks
    import random
    uniq = list({json.dumps(w, sort_keys=True): w for w in ws}.values())
    random.Random(seed).shuffle(uniq)
    return uniq[:n]


def check(pid, tier, seed, machine, mc_cfg, gen_cfg, trace_module, adapter, sig, corrupt, tour_cap, n_walks, walk_len,
          extra_items=None, variants=None, post_actions=None, fresh_process=False, rule="", assumptions=(), run=None, finish=True, nontrivial=None, adapter_fn="run_trace", walk_overrides=None):
    import time
    run = run or Run(pid, tier, seed)
    T = [time.time()]
    def lap(n):
        T.append(time.time()); run.notes.setdefault('phase_s', {})[n] = round(T[-1] - T[-2], 1)
    rng = random.Random(seed)
    # 1 design
    res = tlc.run(machine, mc_cfg, run.work + "/mc", workers=16, heap="8g")
    run.add_design(res, machine + ":" + mc_cfg)
    lap('design')
    # 2 generation
    alphabet, all_items, n_states, gres = generate(run, machine, gen_cfg)
    lap('generate')
    # 3 behaviours
    t_items, exh = tour(all_items, tour_cap, rng)
    w_items = walks(run, machine, gen_cfg, n_walks, walk_len, seed, walk_overrides)
    actions = t_items + w_items + list(extra_items or [])
    if post_actions:
        actions = [post_actions(a) for a in actions]
    if callable(variants):
        # variants(actions, index) -> list of variant dicts: the behaviour is replayed once per variant
        items = []
        for n, a in enumerate(actions):
            for v in variants(a, n):
                items.append(dict({"id": len(items), "actions": a}, **v))
        variants = None
    else:
        items = [{"id": i, "actions": a} for i, a in enumerate(actions)]
    if variants:
        for it in items:
            it.update(variants[it["id"] % len(variants)])
    by_item = {it["id"]: it for it in items}
    # replay, monitor and evidence in batches: the traces of a thorough tour do not fit in memory together
    BATCH = 20000
    bad_all, judged, canary, n_traces, steps = [], 0, None, 0, 0
    nt, samples = set(), {}
    want = {0: "first", len(t_items) // 2: "middle", len(items) - 1: "last"}
    for b0 in range(0, max(len(items), 1), BATCH):
        part = items[b0:b0 + BATCH]
        traces = pool.map_items(adapter, adapter_fn, part, **({'fresh_every': 1, 'chunksize': 1, 'initname': None} if fresh_process else {}))
        traces = [t for t in traces if t is not None]      # None: batch abandoned after repeated hangs (harness/pool.py)
        # 4 monitor
        bad, j = monitor.judge(trace_module, traces, run.work + "/mon")
        judged += j
        bad_all += bad
        by_id = {t["id"]: t for t in traces}
        for tid, step, clause in bad:
            t = by_id[tid]
            run.violation(sig(t, step, clause), "%s fails at step %d of trace %s: %s" % (
                clause, step, tid, json.dumps(t["steps"][step - 1]["a"]) if step else "initial state"),
                {"adapter": adapter, "fn": adapter_fn, "id": t["id"], "actions": [s["a"] for s in t["steps"][:max(step, 1)]],
                 "variant": {k: v for k, v in by_item.get(t["id"], {}).items() if k not in ("id", "actions")}, "failing_step": step, "clause": clause})
        # 5 canary candidate
        if canary is None:
            rejected = {b[0] for b in bad}
            for t in traces:
                if t["steps"] and t["id"] not in rejected:
                    c = corrupt(copy.deepcopy(t))
                    if c is not None:
                        canary = c
                        break
        # evidence
        for t in traces:
            pre = t["init"]
            for s in t["steps"]:
                steps += 1
                if nontrivial is None or nontrivial(pre, s):
                    nt.add(json.dumps([pre.get("list", pre), s["a"]], sort_keys=True) if nontrivial is None else nontrivial(pre, s))
                pre = s["post"]
            if t["id"] in want:
                samples[t["id"]] = {"actions": t["steps"] and [s["a"] for s in t["steps"]], "final": t["steps"][-1]["post"] if t["steps"] else t["init"]}
        n_traces += len(traces)
        del traces, by_id
    bad = bad_all
    lap('replay+monitor')
    if canary is None and not bad:
        raise Machinery("no trace available for the canary")
    if canary is None:
        # every candidate trace was rejected by the monitor: the rejections themselves show that the binding is alive, and
        # they must be reported as violations rather than be hidden behind a machinery failure
        run.notes["canary"] = "skipped: no accepted trace left to corrupt (%d rejected)" % len(bad)
        cbad = [(0, 0, "n/a")]
    else:
        cbad, _ = monitor.judge(trace_module, [canary], run.work + "/canary", jvms=1)
    if not cbad:
        raise Machinery("canary: corrupted trace was accepted by the monitor - the binding is broken")
    lap('canary')
    run.cov["traces_validated_against_impl"] += n_traces
    run.cov["evaluations"] += steps
    run.cov["distinct_nontrivial"] += len(nt)
    run.cov["exhaustive"] = bool(exh and run.cov.get("exhaustive", True))
    run.cov["rule"] = rule
    run.cov["samples"] += [samples[i] for i in sorted(samples)][:3]
    run.notes.setdefault("machines", {})[machine] = ({"model_states_toured": n_states, "model_transitions": len(all_items), "alphabet": len(alphabet), "tour_traces": len(t_items),
                      "random_walks": len(w_items), "walk_length": walk_len, "monitor_states_judged": judged,
                      "canary": "rejected with %s" % cbad[0][2], "phase_s": run.notes.pop("phase_s", {})})
    run.assumptions += list(assumptions)
    return run.finish() if finish else run
