"""Generic decision procedure for history properties:
   1 TLC design check of the machine (exhaustive, small constants)
   2 TLC behaviour generation: one shortest history per reachable abstract state + the action alphabet
   3 transition tour (every reachable state x every action) + seeded random walks, replayed on the real objects
   4 TLC trace monitor judges every recorded step against the contract
   5 canary: a recorded trace with one corrupted field must be rejected."""
import json, random, copy
from . import tlc, pool, monitor
from .report import Run, Machinery


def generate(run, machine, gen_cfg, state_key="s"):
    res = tlc.run(machine, gen_cfg, run.work + "/gen", workers=1, heap="6g")
    if not res.ok:
        raise Machinery("behaviour generation failed: %s\n%s" % (res.errors or res.violated, res.out[-2000:]))
    alpha = tlc.json_lines(res, "ALPHABET")
    hists = tlc.json_lines(res, "HIST")
    if not alpha or not hists:
        raise Machinery("behaviour generation printed nothing")
    first = {}
    for h in hists:  # BFS order: the first history reaching a state is a shortest one
        k = json.dumps(h[state_key], sort_keys=True)
        if k not in first:
            first[k] = h["h"]
    return alpha[0], list(first.values()), res


def tour(alphabet, paths, cap, rng):
    items = [p + [a] for p in paths for a in alphabet]
    exhaustive = True
    if cap and len(items) > cap:
        rng.shuffle(items)
        items = items[:cap]
        exhaustive = False
    return items, exhaustive


def walks(alphabet, n, length, rng):
    return [[rng.choice(alphabet) for _ in range(length)] for _ in range(n)]


def check(pid, tier, seed, machine, mc_cfg, gen_cfg, trace_module, adapter, sig, corrupt, tour_cap, n_walks, walk_len,
          extra_items=None, rule="", assumptions=(), run=None, finish=True, nontrivial=None, adapter_fn="run_trace"):
    import time
    run = run or Run(pid, tier, seed)
    T = [time.time()]
    def lap(n):
        T.append(time.time()); run.notes.setdefault('phase_s', {})[n] = round(T[-1] - T[-2], 1)
    rng = random.Random(seed)
    # 1 design
    res = tlc.run(machine, mc_cfg, run.work + "/mc", workers=16, heap="8g")
    run.add_design(res, machine + ":" + mc_cfg)
    lap('design')
    # 2 generation
    alphabet, paths, gres = generate(run, machine, gen_cfg)
    lap('generate')
    # 3 behaviours
    t_items, exh = tour(alphabet, paths, tour_cap, rng)
    w_items = walks(alphabet, n_walks, walk_len, rng)
    actions = t_items + w_items + list(extra_items or [])
    items = [{"id": i, "actions": a} for i, a in enumerate(actions)]
    traces = pool.map_items(adapter, adapter_fn, items)
    lap('replay')
    # 4 monitor
    bad, judged = monitor.judge(trace_module, traces, run.work + "/mon")
    by_id = {t["id"]: t for t in traces}
    for tid, step, clause in bad:
        t = by_id[tid]
        run.violation(sig(t, step, clause), "%s fails at step %d of trace %s: %s" % (
            clause, step, tid, json.dumps(t["steps"][step - 1]["a"]) if step else "initial state"),
            {"adapter": adapter, "actions": [s["a"] for s in t["steps"][:max(step, 1)]], "failing_step": step, "clause": clause})
    lap('monitor')
    # 5 canary
    canary = None
    for t in traces:
        if t["steps"] and t["id"] not in {b[0] for b in bad}:
            c = corrupt(copy.deepcopy(t))
            if c is not None:
                canary = c
                break
    if canary is None:
        raise Machinery("no trace available for the canary")
    cbad, _ = monitor.judge(trace_module, [canary], run.work + "/canary", jvms=1)
    if not cbad:
        raise Machinery("canary: corrupted trace was accepted by the monitor - the binding is broken")
    lap('canary')
    # evidence
    nt = set()
    steps = 0
    for t in traces:
        pre = t["init"]
        for s in t["steps"]:
            steps += 1
            if nontrivial is None or nontrivial(pre, s):
                nt.add(json.dumps([pre.get("list", pre), s["a"]], sort_keys=True) if nontrivial is None else nontrivial(pre, s))
            pre = s["post"]
    run.cov["traces_validated_against_impl"] += len(traces)
    run.cov["evaluations"] += steps
    run.cov["distinct_nontrivial"] += len(nt)
    run.cov["exhaustive"] = bool(exh and run.cov.get("exhaustive", True))
    run.cov["rule"] = rule
    run.cov["samples"] += [{"actions": traces[i]["steps"] and [s["a"] for s in traces[i]["steps"]], "final": traces[i]["steps"][-1]["post"] if traces[i]["steps"] else traces[i]["init"]}
                           for i in (0, len(t_items) // 2, len(traces) - 1) if i < len(traces)][:3]
    run.notes.setdefault("machines", {})[machine] = ({"model_states_toured": len(paths), "alphabet": len(alphabet), "tour_traces": len(t_items),
                      "random_walks": len(w_items), "walk_length": walk_len, "monitor_states_judged": judged,
                      "canary": "rejected with %s" % cbad[0][2], "phase_s": run.notes.pop("phase_s", {})})
    run.assumptions += list(assumptions)
    return run.finish() if finish else run
