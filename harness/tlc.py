"""Thin runner around TLC 1.8 (tla2tools.jar).  No verdict logic lives here."""
import os, re, subprocess, time, shutil, json

JAR = "/opt/veriftools/tla/tla2tools.jar:/opt/veriftools/tla/CommunityModules-deps.jar"
SPEC = os.path.join(os.path.dirname(os.path.dirname(os.path.abspath(__file__))), "spec")


class TLCError(Exception):
    pass


class TLCResult:
    def __init__(self, rc, out, wall):
        self.rc, self.out, self.wall = rc, out, wall
        m = re.findall(r"(\d+) states generated, (\d+) distinct states found, (\d+) states left", out)
        self.generated = int(m[-1][0]) if m else 0
        self.distinct = int(m[-1][1]) if m else 0
        self.left = int(m[-1][2]) if m else 0
        m = re.search(r"The depth of the complete state graph search is (\d+)", out)
        self.depth = int(m.group(1)) if m else 0
        self.errors = [l for l in out.splitlines() if l.startswith("Error:") or "Exception" in l and "at " not in l]
        self.violated = re.findall(r"Invariant (\S+) is violated", out) + re.findall(
            r"Action property (\S+) is violated", out) + re.findall(r"Temporal properties were violated", out)

    @property
    def ok(self):
        return self.rc == 0 and not self.errors and not self.violated

    def printed(self):
        """Values printed by PrintT / Print: every output line that is not TLC chatter."""
        return [l for l in self.out.splitlines()]

    def coverage(self):
        """action name -> (distinct, total) from '-coverage' output."""
        cov = {}
        for m in re.finditer(r"<(\w+) line \d+, col \d+ to line \d+, col \d+ of module (\w+)>: (\d+):(\d+)", self.out):
            cov[m.group(1)] = (int(m.group(3)), int(m.group(4)))
        return cov


def run(module, cfg, work, workers=16, args=(), env=None, timeout=1800, heap="4g", simulate=None, coverage=False,
        deadlock=False):
    """Run TLC on spec/<module>.tla with config file `cfg` (absolute, or relative to spec/)."""
    os.makedirs(work, exist_ok=True)
    meta = os.path.join(work, "meta_%s_%d" % (module, os.getpid()))
    tmp = os.path.join(work, "tmp")
    os.makedirs(tmp, exist_ok=True)
    shutil.rmtree(meta, ignore_errors=True)
    if not os.path.isabs(cfg):
        cfg = os.path.join(SPEC, cfg)
    cmd = ["java", "-XX:+UseParallelGC", "-Xss64m", "-Xmx" + heap, "-Djava.io.tmpdir=" + tmp, "-cp", JAR, "tlc2.TLC",
           "-workers", str(workers), "-metadir", meta, "-noGenerateSpecTE", "-config", cfg]
    if not deadlock:
        cmd.append("-deadlock")  # i.e. do NOT check deadlock
    if coverage:
        cmd += ["-coverage", "1"]
    if simulate:
        cmd += ["-simulate", simulate]
    cmd += list(args) + [os.path.join(SPEC, module + ".tla")]
    e = dict(os.environ)
    e.pop("JAVA_TOOL_OPTIONS", None)
    if env:
        e.update(env)
    t0 = time.time()
    try:
        p = subprocess.run(cmd, cwd=work, env=e, stdout=subprocess.PIPE, stderr=subprocess.STDOUT, timeout=timeout,
                           text=True, errors="replace")
        rc, out = p.returncode, p.stdout
    except subprocess.TimeoutExpired as ex:
        rc, out = 124, (ex.stdout or b"").decode("utf8", "replace") if isinstance(ex.stdout, bytes) else (ex.stdout or "")
        out += "\nError: TLC timed out after %ss" % timeout
    shutil.rmtree(meta, ignore_errors=True)
    return TLCResult(rc, out, time.time() - t0)


def sany(module):
    p = subprocess.run(["java", "-cp", JAR, "tla2sany.SANY", os.path.join(SPEC, module + ".tla")], cwd=SPEC,
                       stdout=subprocess.PIPE, stderr=subprocess.STDOUT, text=True)
    return p.returncode == 0 and "Semantic errors" not in p.stdout and "***Parse Error***" not in p.stdout, p.stdout


def json_lines(res, tag):
    """Extract JSON payloads printed by TLC as  PrintT(<<tag, ToJson(x)>>)  -> '<<"tag", "....">>'."""
    outl = []
    pref = '<<"%s", "' % tag
    for l in res.out.splitlines():
        if l.startswith(pref) and l.endswith('">>'):
            s = l[len(pref):-3]
            # TLC prints the TLA+ string with \" and \\ escapes
            s = s.replace('\\\\', '\x00').replace('\\"', '"').replace('\x00', '\\')
            outl.append(json.loads(s))
    return outl
