"""Evidence files, known findings, exit codes.  Exit 0 = held on everything explored, 1 = violation
(line 'VIOLATION property=<id> replay=<path>'), 2 = machinery failure (TLC error, vacuity, canary missed)."""
import json, os, sys, time

ROOT = os.path.dirname(os.path.dirname(os.path.abspath(__file__)))
FINDINGS = os.path.join(ROOT, "known_findings.json")
CAP = int(os.environ.get("VERIF_MAX_VIOLATIONS", "20"))      # violation files written per run (one per distinct key)


class Machinery(Exception):
    """the check itself is broken (exit 2); never reported as a violation or as a pass"""


def known_findings(pid):
    if not os.path.exists(FINDINGS):
        return {}
    with open(FINDINGS) as f:
        data = json.load(f)
    return {e["key"]: e for e in data.get("findings", []) if e["property"] == pid and e.get("status") == "known"}


class Run:
    def __init__(self, pid, tier, seed):
        self.pid, self.tier, self.seed = pid, tier, seed
        self.t0 = time.time()
        self.work = os.path.join(ROOT, ".work", pid)
        import shutil
        shutil.rmtree(self.work, ignore_errors=True)
        os.makedirs(os.path.join(self.work, "violations"), exist_ok=True)
        self.cov = {"states": 0, "transitions": 0, "traces_validated_against_impl": 0, "evaluations": 0,
                    "distinct_nontrivial": 0, "rule": "", "samples": []}
        self.assumptions = []
        self.violations = []      # (key, what, replay_obj)
        self.notes = {}
        self.known = known_findings(pid)

    def add_design(self, res, name):
        """record a TLC design check (must have succeeded)"""
        if not res.ok:
            raise Machinery("TLC design check %s failed (rc=%s): %s\n%s" % (name, res.rc, res.errors or res.violated, res.out[-3000:]))
        self.cov["states"] += res.distinct
        self.cov["transitions"] += res.generated
        self.notes.setdefault("tlc_runs", []).append(
            {"model": name, "distinct_states": res.distinct, "states_generated": res.generated, "depth": res.depth,
             "wall_s": round(res.wall, 1)})

    def violation(self, key, what, replay):
        self.violations.append((key, what, replay))

    def finish(self, level="model_checking"):
        hit, new = {}, []
        for key, what, replay in self.violations:
            if key in self.known:
                hit.setdefault(key, []).append(what)
            else:
                new.append((key, what, replay))
        for key in sorted(hit):
            print("KNOWN-FINDING: property=%s %s [%s] (%d occurrence(s) this run)" % (
                self.pid, self.known[key].get("what", ""), key, len(hit[key])))
        paths, seen = [], set()
        for i, (key, what, replay) in enumerate(new):
            if key in seen or len(paths) >= CAP:
                continue
            seen.add(key)
            p = os.path.join(self.work, "violations", "%s_%03d.json" % (self.pid, len(paths)))
            with open(p, "w") as f:
                json.dump({"property": self.pid, "key": key, "what": what, "replay": replay}, f, indent=1)
            paths.append(p)
            n = sum(1 for k, _, _ in new if k == key)
            what = "%s (%d occurrence(s) of this key)" % (what, n)
            if len(paths) <= CAP:
                print("VIOLATION property=%s replay=%s  # %s :: %s" % (self.pid, p, key, what))
        self.cov["known_findings_hit"] = sorted(hit)
        self.cov["violation_keys"] = sorted({k for k, _, _ in new})
        self.cov.update(self.notes)
        ev = {"property_id": self.pid, "tier": self.tier, "seed": self.seed, "level": level, "coverage": self.cov,
              "assumptions": self.assumptions, "wall_s": round(time.time() - self.t0, 1), "violations": len(new)}
        os.makedirs(os.path.join(ROOT, "evidence"), exist_ok=True)
        with open(os.path.join(ROOT, "evidence", self.pid + ".json"), "w") as f:
            json.dump(ev, f, indent=1, sort_keys=True)
        print("%s %s: %d evaluations, %d distinct non-trivial, TLC %d states / %d transitions, %d traces judged, "
              "%d known finding key(s), %d new violation(s), %.0fs" % (
                  self.pid, self.tier, self.cov["evaluations"], self.cov["distinct_nontrivial"], self.cov["states"],
                  self.cov["transitions"], self.cov["traces_validated_against_impl"], len(hit), len(new),
                  time.time() - self.t0))
        return 1 if new else 0
