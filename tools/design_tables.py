#!/usr/bin/env python3
"""Regenerates the findings and seeded-change tables of DESIGN.md from known_findings.json and seeded/*/meta.json."""
import json, os, glob, re
ROOT = os.path.dirname(os.path.dirname(os.path.abspath(__file__)))


def findings():
    d = json.load(open(os.path.join(ROOT, "known_findings.json")))["findings"]
    out = ["## 11. Findings: defects repaired in /repo and known findings", "",
           "Generated from `known_findings.json` by `tools/design_tables.py`. A *fixed* entry names the `fix:` commit in /repo and",
           "suppresses nothing; a *known* entry is a genuine defect that was not repaired (the repair is not small and safe, or an",
           "existing test pins the behaviour) and is reported as `KNOWN-FINDING` by its check, keyed by the abstract signature shown.", "",
           "| property | status | commit / key | what fails |", "|---|---|---|---|"]
    for e in sorted(d, key=lambda e: (e["property"], e["status"])):
        ref = e.get("commit", "") if e["status"] == "fixed" else "`%s`" % e["key"].replace("|", "\\|")
        out.append("| %s | %s | %s | %s |" % (e["property"], e["status"], ref, e["what"].replace("|", "\\|").replace("\n", " ")))
    return "\n".join(out)


def seeded():
    out = ["## 12. Seeded changes and the checks that catch them", "",
           "Generated from `seeded/*/meta.json` (`tools/seed.py run`): every change keeps the repository's 410 tests green.", "",
           "| change | what it changes | quick checks run against it |", "|---|---|---|"]
    for d in sorted(glob.glob(os.path.join(ROOT, "seeded", "*"))):
        m = json.load(open(os.path.join(d, "meta.json")))
        runs = m.get("checks_run", {})
        if m.get("obsolete"):
            res = "obsolete: " + str(m["obsolete"])[:120]
        else:
            res = ", ".join("%s: %s" % (p, "caught" if r.get("caught") else "MISSED") for p, r in sorted(runs.items())) or "not run"
        if m.get("outside_property"):
            res += " - outside the property: " + str(m["outside_property"])[:160]
        fr = m.get("first_run")
        if fr and not m.get("obsolete"):
            res += " (as the checks stood: %s)" % ("caught" if fr.get("caught") else "missed" if fr.get("caught") is False else "not run - " + fr.get("note", "")[:60])
        summ = re.sub(r"\s+", " ", m.get("summary", ""))[:230].replace("|", "\\|")
        out.append("| %s | %s | %s |" % (os.path.basename(d), summ, res))
    return "\n".join(out)


def main():
    p = os.path.join(ROOT, "DESIGN.md")
    s = open(p).read()
    for name, text in (("findings", findings()), ("seeded", seeded())):
        a, b = "<!-- BEGIN %s -->" % name, "<!-- END %s -->" % name
        i, j = s.index(a), s.index(b)
        s = s[:i + len(a)] + "\n" + text + "\n" + s[j:]
    open(p, "w").write(s)
    print("DESIGN.md tables regenerated")


if __name__ == "__main__":
    main()
