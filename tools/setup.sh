#!/bin/sh
# Offline setup: nothing to build - TLA+ specs are interpreted by TLC, adapters are plain Python run by /venv/bin/python,
# which already imports cssutils from /repo (editable install).  We only verify the tools are there.
set -e
cd "$(dirname "$0")/.."
test -f /opt/veriftools/tla/tla2tools.jar && command -v java >/dev/null || { echo "TLC missing"; exit 1; }
/venv/bin/python -c "import sys; sys.path.insert(0,'/repo'); import cssutils, encutils; print('cssutils from', cssutils.__file__)"
mkdir -p .work evidence
echo setup ok
