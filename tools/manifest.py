#!/usr/bin/env python3-vt
"""Regenerates /verif/MANIFEST.json from the table below and validates it against the schema."""
import json, os, sys
ROOT = os.path.dirname(os.path.dirname(os.path.abspath(__file__)))
ALL = ["C%02d" % i for i in range(1, 21)]

CLAIMED = {
    "C10": dict(
        technique="TLA+ contract (DeclBlockContract/VarBlockContract) + TLC design check; TLC-generated transition tour and "
                  "random walks replayed on CSSStyleDeclaration/CSSVariablesDeclaration; TLC trace monitor judges every step",
        text="Bounded exhaustive: every reachable abstract list (<=3 entries quick, <=4 thorough) x every API action is executed on the "
             "real class and each observed step is judged in TLC against the ordered-multimap-with-cascade contract and the "
             "views-agree clauses; plus seeded long random walks. Right level: the property is about reachable states of a small "
             "sequential object whose abstract state is fully observable.",
        design_ref="DESIGN.md section 5 C10",
        note="Trusted: TLC, the adapter's projection through public accessors, small name/value alphabets (character-level "
             "normalisation is decided under C05/C03)."),
    "C17": dict(
        technique="TLA+ contract (MediaListContract) + TLC design check; TLC-generated transition tour and simulated walks "
                  "replayed on MediaList (stand-alone, @media-owned, @import-owned; raise and log mode); TLC trace monitor",
        text="Bounded exhaustive: every explored transition of the canonical-ordered-set machine (lists <=3 quick / <=4 thorough over "
             "simple types with case variants, feature queries and five kinds of malformed queries) is executed on the real class "
             "and judged in TLC: canonical form, append-moves-to-end, delete-exactly, rejected-unchanged, text reparses to an equal "
             "list, length/item/iteration agree. Right level: a small sequential object with fully observable state.",
        design_ref="DESIGN.md section 5 C17",
        note="Trusted: TLC, adapter projection (lower-cases and whitespace-normalises query texts). Appending / assigning 'all' next to "
             "feature queries and out-of-range indexes are not generated (property silent). Owners: none, @media, @import, each also with "
             "its list re-assigned first; the owner's text is read back from the owner's own serialisation. Known findings (item assignment)."),
    "C14": dict(
        technique="TLA+ contract F(contents) (ProfilesContract) + algorithm-layer model of the macro cache (Profiles.tla) checked "
                  "by TLC (HistoryFree, with a deviation switch reproducing the stale-cache defects); TLC-generated tour and walks "
                  "replayed on a fresh Profiles registry; TLC trace monitor compares the probe verdict vector with F(observed contents)",
        text="Bounded exhaustive over registry histories: all explored (contents, macro-cache) states x every enabled registry "
             "operation with six custom profiles that shadow a general macro, a macro of a built-in profile, a TOKEN macro, introduce "
             "a new one, or carry a name that contains the names of two others; every second behaviour takes a contents-preserving "
             "detour (a macro-less profile added and removed) before its last action; after every step 30 probe verdicts identify the macro version each property is compiled with and TLC checks "
             "they equal F(contents), knownNames/propertiesByProfile too, validate == validateWithProfile.valid, the `matching` answer follows the default "
             "profiles, an explicit profiles argument (single name or list) selects exactly those profiles, unknown removal rejected.",
        design_ref="DESIGN.md section 5 C14",
        note="Trusted: TLC, the adapter's probe battery (literal-string macro bodies). Regex semantics themselves are C13's subject."),
    "C09": dict(
        technique="TLA+ contract (SheetDOMContract) + algorithm-layer machine mirroring CSSStyleSheet.insertRule (SheetDOM.tla, "
                  "deviation switch for the historical ordered-add placement) checked by TLC; TLC-generated transition tour and "
                  "simulated walks replayed on CSSStyleSheet / @media / @page lists; composition machine System.tla (DeclBlockContract and "
                  "MediaListContract INSTANCEd into a product over one sheet's nested objects, frame + skeleton + parent clauses); TLC trace monitor",
        text="Bounded exhaustive over edit histories: every explored transition of the machine (10 rule kinds incl. merged margin boxes, "
             "rules as text and as objects, insert at every index, ordered add, delete by index / negative index / rule object, cssText/encoding "
             "assignment, nested list edits; every third behaviour with the sheet's own text re-assigned before the last action, behaviours that "
             "declare a prefix replayed a second time with the style rules USING that namespace, "
             "declaration edits with foreign Property objects) is executed on the real DOM; after each step TLC checks "
             "OneCharsetFirst, Ordered, ChildrenAllowed, ParentMirror, DetachedHaveNoParent, ReparseKeepsEveryRule and that the "
             "step is allowed (accepted insert puts exactly that rule at that index, ordered add at some valid index, rejected "
             "=> unchanged). Composition: the complete transition tour of System.tla (edits of two nested declaration blocks, an @media "
             "rule's media list and two selector texts of ONE sheet; objects kept / re-fetched / Property objects handed in) - TLC "
             "judges the target's own contract, that no sibling component changed, the rule skeleton, all parent links, that the "
             "sheet text reparses to the same components and that a rejected edit leaves the sheet text unchanged.",
        design_ref="DESIGN.md section 5 C09",
        note="Trusted: TLC, adapter projection (identity checks of parent links are computed in Python and judged in TLC). "
             "Rule payloads are fixed templates; serializer runs with keepEmptyRules=True."),
    "C12": dict(
        technique="TLA+ contract (GlobalsContract) + algorithm-layer machine of the error-mode switch (Globals.tla, deviation switch "
                  "reproducing restore-without-finally and restore-to-construction-time-mode) checked by TLC; TLC-generated tour and "
                  "simulated walks, each replayed in a freshly forked process; TLC trace monitor; probe battery compared with "
                  "fresh-process reference",
        text="Bounded exhaustive over call histories with injected faults: every explored transition of the (mode, parser objects, "
             "preference assignment) machine - parser construction in both parse modes, six parse entry points x faults "
             "(none, empty, malformed, undecodable bytes, throwing fetcher, missing file, input that leaves a pushed-back token), rejected DOM "
             "edit, media query edit, a serialisation whose validator raises, a default-profile switch, a profile added / used / removed, "
             "serialise, csscombine, preference changes - followed by a probe battery. TLC checks after every call that error mode, "
             "preferences digest, profile verdict digest and serializer identity are as at call start, that the battery answers as "
             "in a fresh process and that a parser object is reusable.",
        design_ref="DESIGN.md section 5 C12",
        note="Trusted: TLC, fork-per-behaviour isolation, the battery's sensitivity (its first item is a production-parser call that "
             "exposes any token left over by an earlier call)."),
    "C15": dict(
        technique="TLA+ contract (NamespacesContract) + intended-semantics generator machine (Namespaces.tla, invariants checked by "
                  "TLC); TLC-generated tour and simulated walks replayed on CSSStyleSheet namespaces / @namespace rules / namespaced "
                  "selectors incl. @media-nested, detached and re-attached rules; TLC trace monitor",
        text="Bounded exhaustive over namespace edit histories (3 prefixes incl. default, 2 URIs, 9 selector forms incl. undeclared "
             "prefix and :not() arguments; add/insert/delete @namespace, mapping set/delete, prefix assignment, selector rewrite as text or as a "
             "Selector object with a prefix of its own, a rejected assignment of the whole sheet text, detach/attach; starting from an empty sheet "
             "or from one that already holds other rules). After "
             "every step TLC checks: mapping = effective rules, used URIs declared, unprefixed type selectors follow the default, "
             "serialisation reparses to the same mapping and re-resolves every explicit item to the same (URI, local) pair, "
             "denotation of every untouched selector item is stable, detached rules keep their text, undeclared prefix rejected, "
             "rejected => unchanged.",
        design_ref="DESIGN.md section 5 C15",
        note="Trusted: TLC, adapter projection. States where one prefix is bound to two URIs are only partly judged (property silent). "
             "Four known findings (unprefixed selectors do not follow the default namespace; attribute in default namespace; "
             "rule object with undeclared URI accepted)."),
    "C11": dict(
        technique="TLA+ matrix (Mutators.tla: class x mutator x rejection stage x prior state x attachment x read-only) enumerated "
                  "completely by TLC; each cell rendered into one real call with before/after fingerprints; TLC trace monitor "
                  "(MutatorsContract); rejected-unchanged clauses also evaluated on all C09/C10/C15/C17 history traces",
        text="Exhaustive over a finite matrix of 3312 cells (21 DOM classes, 57 mutators, 7 rejection stages incl. 'after part of the "
             "new content was accepted', 'inside a nested object' and 'a rule list whose second member is not allowed, inserted before the "
             "end'; prior states fresh, populated and 'odd' - states only a history produces: !IMPORTANT priorities, a media list 'all, print'); for every call that ends in a DOM exception TLC checks that "
             "the serialisation of target, owner rule and sheet and the structural lists are unchanged, and that objects created "
             "read-only reject every mutator with NoModificationAllowedErr. 'Arbitrary prior state' is covered by the history "
             "checks, whose monitors contain the same clause.",
        design_ref="DESIGN.md section 5 C11",
        note="Trusted: TLC, the adapter's table of concrete bad inputs per cell (cells without rendering are counted as not applicable), "
             "the fingerprint's completeness (cssText + rule/property/selector/media/namespace lists)."),
    "C20": dict(
        technique="TLA+ decision table (EncutilsContract: ExpectedEncoding / ExpectedMismatch / Sniff written from the documented "
                  "rules) enumerated completely by TLC (Encutils.tla, table totality checked); each row executed against "
                  "encutils.getEncodingInfo / detectXMLEncoding / encodingByMediaType with stub responses; TLC trace monitor",
        text="Exhaustive: all 2048 rows of media-type class x transport charset x XML declaration/BOM x meta x text/bytes, 96 sniffer "
             "rows (string, positioned stream, bytes; includeDefault on/off) and 8 media-type rows; TLC compares encoding, mismatch and the three per-source "
             "encodings (lower case) with the table and checks the stream position is untouched.",
        design_ref="DESIGN.md section 5 C20",
        note="Trusted: TLC, the transcription of the documented rules into the TLA+ operators (independent of encutils' chain of ifs). "
             "Responses without Content-Type header, missing response objects and documents shorter than four characters are "
             "outside the table (statement silent / pinned otherwise by the existing tests)."),
    "C07": dict(
        technique="TLA+ table of CSS 2.1 section 4.4 over byte classes with allowed-answer sets and the 'unknown yet, never wrong' "
                  "prefix rule (CodecContract), input spaces enumerated completely by TLC (Codec.tla); every row executed on "
                  "cssutils.codec (detectors, stateless encode/decode, incremental and stream classes); TLC trace monitor",
        text="Exhaustive: all 22621 sequences of <=4 byte classes x final/non-final for the byte detector, both detectors on a charset "
             "rule cut at every length, 6 text shapes x 12 encodings x charset rule none/same/other x given/auto for the round "
             "trip, and for the four chunked classes x 11 encodings x 4 texts every cut set of <=1 (quick) / <=2 (thorough) cuts in "
             "the first 26/30 units (a cut at 0 = an empty first chunk) plus one-unit-at-a-time, the same for decoders / encoders that are given "
             "no encoding and detect it (BOM, @charset rule, BOM-less wide encodings whose rule names something else); TLC checks membership in the allowed answers, that a non-final answer "
             "is allowed for EVERY extension, charset-name rewriting, and concatenated chunk outputs = one-shot output.",
        design_ref="DESIGN.md section 5 C07",
        note="Trusted: TLC, transcription of the CSS 2.1 table, concrete bytes chosen per class. Texts an encoding cannot represent and "
             "auto-detection without BOM/@charset are outside the quantifier. Three known findings (input ending inside the charset "
             "rule through the stream classes; detectencoding_unicode with final=True, pinned by an existing test)."),
    "C08": dict(
        technique="TLA+ precedence ladder Chosen(node, parentEnc, override) with hand-over rule (EncChainContract) and table-level "
                  "lemmas checked by TLC; import chains, later-edit histories and escape cases enumerated by TLC (EncChain.tla); the "
                  "adapter serves each node encoded in the encoding the SPEC chooses with distinguishing probe characters; TLC "
                  "trace monitor",
        text="Exhaustive over the row product for depth-1 chains (override x transport charset x BOM/@charset/neither x parent known "
             "x bytes/text x fetcher None/(None,None)/data, four mutually distinguishable encodings; UTF-8 and UTF-16 signatures, a signature "
             "under a disagreeing transport charset, '@CHARSET' that is no rule), reduced product for depth 2 "
             "(3 in the thorough tier), 1536 histories 'parse, change the encoding of root or imported sheet, add a new @import as "
             "text / object / whole-text assignment', and 180 escape cases (6 target encodings x 6 character strings x 5 syntactic "
             "positions). TLC checks reported encodings, probe text, loaded/unavailable imports, @charset mirror, decodability, "
             "lossless reparse and that removing the rule reports utf-8.",
        design_ref="DESIGN.md section 5 C08",
        note="Trusted: TLC, probe characters pairwise distinguishable under the candidate encodings (DESIGN appendix B.5)."),
    "C16": dict(
        technique="TLA+ generator machine of the CSS3 selector grammar carrying the by-construction specificity (Selector.tla) with an "
                  "algorithm layer mirroring New.append's context-dependent counting (invariant CountAsSpecified checked by TLC); all "
                  "generated selectors x 5 spellings executed on cssutils.css.Selector; SelectorList histories from a second machine "
                  "(SelList.tla); TLC trace monitors",
        text="Bounded exhaustive: every selector with <=3 parts/2 compounds (quick) or <=4 parts/3 compounds (thorough) over "
             "type/universal, id, class, 7 attribute operators, pseudo-class, functional pseudo-class with an+b / ident argument, "
             "pseudo-elements in one- and two-colon form and as a function, :not() with 6 argument kinds and 4 combinators, each in 6 spellings "
             "(incl. the empty string as attribute value); selector lists under append, text and item assignment from either end; TLC "
             "checks specificity = expected before/after round trip and when attached to a sheet, reparse = first parse, parsed "
             "structure = source; list histories (append/selectorText, raise and log mode): order, whole-list rejection, move-to-end.",
        design_ref="DESIGN.md section 5 C16",
        note="Trusted: TLC, the adapter's spelling function and its projection of Selector.seq into abstract parts. A descendant "
             "combinator that the DOM records next to a comment/another combinator is collapsed before comparing with the source."),
    "C05": dict(
        technique="TLA+ universal tokenizer monitor (LexContract: offsets from line/col by counting line feeds, tiling, progress, "
                  "value = CSS-escape-decoded span with a left-to-right decoder written in TLA+, full-sheet completion and EOF rules), "
                  "input spaces and token-pair sequences with by-construction expectations enumerated by TLC (Lex.tla); every row "
                  "tokenised by the real Tokenizer; TLC trace monitor",
        text="Bounded exhaustive + stratified: every string of <=3 characters over 28 (quick) / 43 (thorough) character classes x "
             "fullsheet on/off, every string of <=4/5 over the escape alphabet, a stratified code-point sweep, slices of the "
             "repository's sheets with seeded mutations; every pair of the 77 grammar tokens x every separator the spec declares "
             "unambiguous, '@charset ' at offset 0, 144 truncated-token completions; error positions of damaged sheets. TLC "
             "recomputes every token's span from its (line, col) and checks tiling, progress, decoded values, types and values of "
             "generated sequences, exactly one EOF.",
        design_ref="DESIGN.md section 5 C05",
        note="Trusted: TLC, the TLA+ escape decoder, one concrete code point per character class. Simple escapes may be kept or "
             "resolved; the position of the EOF token is not judged (statement silent)."),
    "C02": dict(
        technique="TLA+ generators of abstract stylesheets carrying the denoted AST (SheetAST.tla: level-wise exhaustive sets plus a "
                  "statement-level machine with invariant WellOrdered), contract SheetASTContract (DOM = AST for every spelling, "
                  "StripComments, validation-independence); each AST rendered in 6 spelling vectors, parsed under 3 parser "
                  "configurations, projected through public accessors; TLC trace monitor compares structures",
        text="Bounded exhaustive per level: values (all component lists <=3 over 11 component kinds x 3 separators), declaration "
             "blocks (<=3 items incl. comments, priorities), selector lists incl. namespaced forms, @import/@media (nested)/"
             "@page with margin boxes/@namespace/@charset/@font-face/unknown preludes over their optional parts, statement "
             "sequences <=3 (quick) / 4 (thorough); x 6 spelling vectors x {default, parseComments=False, validate=False}. The "
             "expected DOM is known by construction, independent of the code under test.",
        design_ref="DESIGN.md section 5 C02",
        note="Trusted: TLC, the adapter's renderer (spelling) and projection. Atoms come from small vocabularies whose canonical "
             "texts are fixpoints of cssutils' value serialisation; character-level content is C03/C05/C18's job."),
    "C03": dict(
        technique="TLA+ round-trip contract (RoundTripContract: reparse = equivalent DOM, second serialisation byte-identical, single "
                  "nodes set back on fresh objects, content survives; Quote/Unquote losslessness lemma checked by TLC); DOM sources "
                  "all generated by TLC: SheetAST ASTs x spellings, Content.tla character-class content x 9 positions x 3 target "
                  "encodings, SheetDOM and DeclBlock edit histories; plus the repository's sheets; TLC trace monitor",
        text="Bounded exhaustive + real-world: every AST of the C02 generator in spelling vectors (safe and default preferences), all "
             "content strings of <=2 (quick) / <=3 (thorough) over 22 character classes in 9 text-carrying positions under "
             "utf-8/ascii/iso-8859-1, the 50 sheets in /repo/sheets, and the DOMs after every accepted step of 3000 (quick) / 40000 "
             "SheetDOM and DeclBlock histories from the TLC transition tours.",
        design_ref="DESIGN.md section 5 C03",
        note="Trusted: TLC, the shared DOM projection (adapters/sheetast.py; a zero length is projected unit-less), SHA-1 digests for "
             "byte equality. Judged with keepEmptyRules=True/resolveVariables=False where the defaults are documented lossy. "
             "Ten known findings in three root-cause classes (identifiers with non-name characters are serialised unescaped; "
             "quoted content with an escaped backslash; url with control character)."),
    "C04": dict(
        technique="TLA+ damage generator (Damage.tla: garbage token sequences filtered by the TLA+ predicates Balanced / LooksLikeDecl / "
                  "ValidSelectorish, injection points, misplaced at-rules, truncation rows; vacuity guard GarbageNonTrivial) and "
                  "contract (DamageContract: DOM(damaged) = AST(base), complete rules/declarations are a prefix); rendered and parsed "
                  "by the adapter with a mark-recording renderer; TLC trace monitor",
        text="Bounded exhaustive: every balanced garbage sequence of <=2 (quick) / <=3 (thorough) tokens over 17 token kinds as malformed "
             "declaration at every declaration boundary (top level and inside @media), as rule with invalid selector and as unknown "
             "at-rule in statement and block form at every statement boundary, an unknown at-rule (statement, block, block holding a "
             "rule; followed directly by the next declaration, by a space or by ';') at every declaration boundary of style, @page, margin "
             "box and @font-face blocks also nested in @media, @import / @namespace statements that carry a block at every statement "
             "boundary, 10 misplaced at-rules x 9 base sheets, and every prefix "
             "of the 9 rendered base sheets (style, @media, @page with margin box, @font-face, @import/@namespace preamble).",
        design_ref="DESIGN.md section 5 C04",
        note="Trusted: TLC, the renderer's offset marks (which rules/declarations are complete before a cut), the projection. The inserted "
             "construct itself may or may not appear in the DOM."),
    "C01": dict(
        technique="TLA+ context automaton of the grammar (Soup.tla: 29 parser contexts x 64 token kinds, Shift checked total by TLC) "
                  "generating token sequences per context, nesting sweeps and entry-point x option x fetcher x import-graph rows; every "
                  "row executed through the non-raising entry points under a CPU budget; TLC trace monitor (SoupContract)",
        text="Bounded exhaustive over the (context x token x next token) product: every token in every context, token pairs in 10 "
             "(quick) / all 28 contexts, sheet-level triples (thorough), every glued sequence of 3..5 of the tokens of namespaced simple selectors, 21 openers nested "
             "to depths 1..100 in 4 contexts closed and unclosed, 16 token openers x 12 character classes x run lengths 40/300 (thorough "
             "up to 3000) x 4 endings (long runs whose match fails late), one declaration per property name of /repo's profiles x 5 value "
             "shapes built to make a backtracking matcher work hard, about 700 configuration rows (text / bytes / style attribute x fetcher content / None / (None,None) / () / bytes "
             "with BOM or @charset x chain, diamond, self-loop, 2-cycle, missing imports), parser options rotating, plus the "
             "repository's sheets with seeded cuts and mutations. TLC checks: returns the documented class, never raises, CPU "
             "time <= 1 s + 50 us x n^2, result serialises, serialisation parses and serialises again. A call that does not return at "
             "all is observed by the worker pool's watchdog (the worker is killed, the row is judged as TIMEOUT).",
        design_ref="DESIGN.md section 5 C01",
        note="Trusted: TLC, the adapter's spelling table, process CPU time measurement (TLC has no notion of time: the bounded-time clause "
             "is decided on the replayed behaviours). One known finding ('@charset\"abc')."),
    "C18": dict(
        technique="TLA+ denotation of decimal literals by exact digit-sequence arithmetic (ValuesContract: Den, Canon, UnitOk; lemma "
                  "Den(Canon(n)) = Den(n) checked by TLC on every enumerated literal), hash-colour channel arithmetic and the "
                  "shortening-is-lossless lemma, colour-form equivalence classes; rows enumerated by TLC (Values.tla, Content.tla); "
                  "executed through PropertyValue / ColorValue / sheet round trips; TLC trace monitor",
        text="Exhaustive over the enumerated spaces: 3 signs x integer digit strings x fraction digit strings (<=6 digits) x 6 (quick) / "
             "15 (thorough) units x omitLeadingZero; all 4096 short hashes and all long hashes over boundary digits x "
             "minimizeColorHash; the 6^3 exact-percentage colour grid x 3 alpha values in every applicable written form, the 17 "
             "CSS 2.1 keywords in 3 letter cases; component lists in every separator pattern; string and URL content from "
             "Content.tla. TLC compares denotations (no floats in the spec): serialised literal, second serialisation, typed "
             "value, unit, channels, shortening only when lossless, order and separators.",
        design_ref="DESIGN.md section 5 C18",
        note="Trusted: TLC, the adapter's lexical split of a serialised literal into sign/digits/unit and '%.15g' rendering of the typed "
             "value. hsl() only where the CSS3 formula is exact in integers. Known findings shared with C03 for quoted content."),
    "C13": dict(
        technique="TLA+ table oracle transcribed from the CSS 2.1 property index (ValidateContract: keyword sets and accepted value kinds "
                  "for 55 properties, Accepts / Open), rows enumerated by TLC (Validate.tla, vacuity guard TableNonTrivial); "
                  "metamorphic contract (spelling, round trip, origin, @font-face context, serializer preferences, validation "
                  "on/off) over every property name known to /repo; TLC trace monitor",
        text="Exhaustive over the table: 55 properties x (all keywords of all tabled properties + near misses + 18 value kinds + "
             "inherit) = 6804 rows judged against an oracle that is independent of profiles.py; metamorphic rows for all ~250 known "
             "property names x 22 candidate values (a third per quick run): verdict equal under case/whitespace/comment/quote "
             "respelling and under omitLeadingZero, after serialise/reparse, for parsed / setProperty / Property object / rule "
             "constructor origins in a style rule and in @font-face, rule.valid and sheet.valid are conjunctions, stored and "
             "serialised content identical with validation on and off; unknown names never valid.",
        design_ref="DESIGN.md section 5 C13",
        note="Trusted: TLC, the transcription of CSS 2.1. Multi-component grammars are covered metamorphically only; values the prose (not "
             "the grammar) forbids and CSS3 extensions of tabled properties are left open. Two known findings (explicit '+' sign, "
             "min-width: none)."),
    "C06": dict(
        technique="TLA+ contract Effect(prefs, sheet) over the abstract stylesheet (PrefsContract: filters for comments, empty / unknown / "
                  "unused-namespace rules, effective and valid declarations, variable resolution, href form; spelling, last-semicolon, "
                  "layout-token and restoration clauses; two NAMED deviations), rows (base sheet x preference assignment) enumerated by "
                  "TLC with design lemmas (Prefs.tla); adapter serialises, reparses, tokenises; TLC trace monitor judges",
        text="Bounded exhaustive over assignments: 18 base sheets on which every preference acts x {default, every preference alone with "
             "every non-default value, ALL pairs of preferences x all non-default values, minified preset, preset with one override, "
             "seeded full assignments} (11.5k rows quick; + C02 level sheets and 1500 full assignments thorough), each in one of 6 "
             "spelling vectors. TLC checks: reparse(output) = Effect(prefs, DOM); every at-keyword / property name / priority / colour "
             "hash / number / variable name is spelled normalised or literal as its preference says; blocks end with or without ';'; "
             "layout preferences leave the non-whitespace token sequence unchanged; useDefaults() restores the default bytes; "
             "the preset and assignments take effect as read back.",
        design_ref="DESIGN.md section 5 C06",
        note="Trusted: TLC, the renderer/projection shared with C02, cssutils' tokenizer for the token clause (C05). lineNumbers excluded. "
             "Validity is taken from a small table for the generated declarations. Two known findings (named deviations in the contract), "
             "three defects fixed in /repo."),
    "C19": dict(
        technique="TLA+ contract over a virtual file system (ImportsContract: RFC 3986 reference resolution, Meaning = rules in cascade "
                  "order with media stacks and absolute URLs after virtual expansion of available @imports, wrappability, URL "
                  "enumeration, fetch bags; reference flattening SpecFlat with three NAMED deviations); import-tree machine explored "
                  "and simulated by TLC with design checks (SpecFlat meets the contract, RelTo inverts Resolve); adapter runs getUrls / "
                  "replaceUrls / resolveImports / csscombine on the generated worlds; TLC trace monitor judges",
        text="Bounded exhaustive over import trees: every state of the edge-adding machine with <=2 @import edges over 10 files in "
             "parent / sibling / child / grand-child directories, root-relative, on a second host, missing x 6 reference forms x media "
             "on the edge (8.5k worlds; a slice per quick run, all in the thorough tier) plus TLC-simulated trees up to 6 edges / depth 4; "
             "bodies carry url() of every form (query, fragment, dot segments, percent escapes) in style, @media, @font-face, "
             "@page+margin. TLC checks Meaning(flat, read from the root's location) = Meaning(original), no @import inside @media, "
             "every flattenable @import flattened, fetch bag, nothing fetched again, URL enumeration order and exactly-once "
             "replacement, identity replacer no-op; csscombine (minified/normal, 4 target encodings) on real files.",
        design_ref="DESIGN.md section 5 C19",
        note="Trusted: TLC, urlsplit for splitting URL strings, the renderer of worlds to CSS text. Cycles are C01's. Only style rules "
             "count as wrappable. Three known findings (named deviations), five defects fixed in /repo."),
}
PENDING = "check not built yet in this round (see DESIGN.md section 10 build order); no claim is made"
NOT_APPLICABLE = {}


def build():
    checks = []
    for pid in ALL:
        if pid not in CLAIMED:
            continue
        c = CLAIMED[pid]
        checks.append({
            "property_id": pid,
            "quick_cmd": "./check %s --tier quick" % pid,
            "thorough_cmd": "./check %s --tier thorough" % pid,
            "evidence_file": "/verif/evidence/%s.json" % pid,
            "replay_cmd_template": "./check %s --replay {path}" % pid,
            "engine": "tlc-monitor",
            "level_claimed": {"category": c.get("category", "model_checking"), "text": c["text"], "design_ref": c["design_ref"]},
            "level_note": c["note"],
            "technique": c["technique"],
        })
    na = [{"property_id": p, "reason": NOT_APPLICABLE.get(p, PENDING)} for p in ALL if p not in CLAIMED]
    return {
        "version": 1,
        "setup_cmd": "cd /verif && ./tools/setup.sh",
        "hooks": {"guard": "CSSUTILS_VERIF", "enable": "no hooks are needed: every check imports cssutils from /repo's working tree "
                  "(editable install in /venv) and observes state through public accessors",
                  "baseline_off_cmd": "cd /repo && /venv/bin/python -m pytest -ra -q -p no:cacheprovider --timeout=900 --continue-on-collection-errors",
                  "source_commits": [], "add_only": True},
        "engines": [{"name": "tlc-monitor", "path": "/verif/check", "serves_properties": sorted(CLAIMED),
                     "kind_free_text": "TLA+ specs in /verif/spec checked by TLC 1.8; behaviours generated by TLC are replayed on the "
                                       "implementation by /verif/adapters and the recorded traces are judged by TLC trace monitors"}],
        "checks": checks,
        "not_applicable": na,
        "notes": "Approach and per-property procedures: /verif/DESIGN.md. Known findings: /verif/known_findings.json.",
    }


if __name__ == "__main__":
    m = build()
    with open(os.path.join(ROOT, "MANIFEST.json"), "w") as f:
        json.dump(m, f, indent=1)
    try:
        import jsonschema
        jsonschema.validate(m, json.load(open("/root/.vp/MANIFEST.schema.json")))
        print("MANIFEST.json valid:", len(m["checks"]), "checks,", len(m["not_applicable"]), "not claimed")
    except ImportError:
        print("jsonschema not available; written unvalidated")
