#!/venv/bin/python
"""Seeded-mutant bookkeeping.
  seed.py import <agent worktree> <pid>       copy _seed/{a,b} to /verif/seeded/<pid><x>/ after verifying them
  seed.py run <name>|all [<pid> ...]            apply patch to /repo, run the quick check(s), undo, record result
A mutant is kept only if (verified here, in a scratch worktree outside /repo and /verif): the patch applies, the
existing tests still pass exactly as on the unchanged tree, the demo FAILS with the patch and PASSES without."""
import json, os, shutil, subprocess, sys, re, time

ROOT = os.path.dirname(os.path.dirname(os.path.abspath(__file__)))
SEEDED = os.path.join(ROOT, "seeded")
PY = "/venv/bin/python"
# the tree the change is applied to and the checks read: /repo, or (VERIF_REPO) a scratch worktree of it, so that changes can be
# re-run while other checks use /repo
TREE = os.environ.get("VERIF_REPO", "/repo")


def sh(cmd, cwd=None, env=None, timeout=1800):
    e = dict(os.environ)
    if env:
        e.update(env)
    p = subprocess.run(cmd, shell=True, cwd=cwd, env=e, stdout=subprocess.PIPE, stderr=subprocess.STDOUT, text=True, timeout=timeout)
    return p.returncode, p.stdout


def tests(wt):
    rc, out = sh("%s -m pytest -q -p no:cacheprovider -x --deselect encutils/__init__.py::encutils "
                 "--deselect examples/website.py::examples.website.logging --ignore=_seed 2>&1 | tail -3" % PY, cwd=wt)
    m = re.search(r"(\d+) passed", out)
    return (int(m.group(1)) if m else 0), bool(re.search(r"\b\d+ (failed|error)", out)), out


def verify(src, pid, x):
    wt = "/tmp/seedverify_%s%s" % (pid, x)
    sh("git -C /repo worktree remove --force %s" % wt)
    rc, out = sh("git -C /repo worktree add -q --detach %s HEAD" % wt)
    try:
        d = os.path.join(wt, "_seed", x)
        shutil.copytree(os.path.join(src, "_seed", x), d)
        rc, out = sh("git apply --check _seed/%s/patch.diff && git apply _seed/%s/patch.diff" % (x, x), cwd=wt)
        if rc != 0:
            return False, "patch does not apply to /repo HEAD: " + out[-300:]
        npass, failed, tout = tests(wt)
        if npass != 410 or failed:
            return False, "tests changed with patch: %s" % tout[-300:]
        rc1, out1 = sh("%s _seed/%s/demo.py" % (PY, x), cwd=wt, env={"PYTHONPATH": wt})
        sh("git apply -R _seed/%s/patch.diff" % x, cwd=wt)
        rc0, out0 = sh("%s _seed/%s/demo.py" % (PY, x), cwd=wt, env={"PYTHONPATH": wt})
        if rc1 == 0 or rc0 != 0:
            return False, "demo: with patch rc=%s, without rc=%s\n%s\n%s" % (rc1, rc0, out1[-300:], out0[-300:])
        return True, "tests 410 passed with patch; demo rc=%d with patch (%s), rc=0 without" % (rc1, out1.strip().splitlines()[-1][:200] if out1.strip() else "")
    finally:
        sh("git -C /repo worktree remove --force %s" % wt)
        shutil.rmtree(wt, ignore_errors=True)


def do_import(src, pid):
    for x in ("a", "b", "c", "d", "e", "f", "g", "h", "i", "j", "k", "l", "m", "n"):
        if not os.path.exists(os.path.join(src, "_seed", x, "patch.diff")):
            continue
        ok, msg = verify(src, pid, x)
        name = pid + x
        print(name, "KEEP" if ok else "DROP", msg)
        if not ok:
            continue
        dst = os.path.join(SEEDED, name)
        shutil.rmtree(dst, ignore_errors=True)
        shutil.copytree(os.path.join(src, "_seed", x), dst)
        meta = json.load(open(os.path.join(dst, "meta.json")))
        meta["verified"] = {"when": time.strftime("%Y-%m-%d %H:%M"), "how": "tools/seed.py import: scratch worktree of /repo HEAD, "
                            "git apply, pytest (410 passed, same 2 known failures deselected), demo.py fails with / passes without",
                            "result": msg}
        json.dump(meta, open(os.path.join(dst, "meta.json"), "w"), indent=1)


def do_run(name, pids):
    d = os.path.join(SEEDED, name)
    meta = json.load(open(os.path.join(d, "meta.json")))
    pids = pids or [meta["property"]]
    rc, out = sh("git -C %s status --porcelain" % TREE)
    if out.strip():
        print("refusing: %s has uncommitted changes" % TREE)
        sys.exit(2)
    rc, out = sh("git -C %s apply %s/patch.diff" % (TREE, d))
    if rc != 0:
        print(name, "patch does not apply:", out[-200:])
        return
    res = {}
    try:
        for pid in pids:
            t0 = time.time()
            rc, out = sh("./check %s --tier quick" % pid, cwd=ROOT)
            viol = [l for l in out.splitlines() if l.startswith("VIOLATION")]
            res[pid] = {"exit": rc, "caught": rc == 1 and bool(viol), "first": viol[0][:300] if viol else out.strip().splitlines()[-1][:300],
                        "wall_s": round(time.time() - t0)}
            print(name, pid, "CAUGHT" if res[pid]["caught"] else "MISSED(rc=%d)" % rc, res[pid]["first"][:200])
    finally:
        sh("git -C %s checkout -- ." % TREE)
    meta.setdefault("checks_run", {}).update(res)
    json.dump(meta, open(os.path.join(d, "meta.json"), "w"), indent=1)


if __name__ == "__main__":
    if sys.argv[1] == "import":
        do_import(sys.argv[2], sys.argv[3])
    elif sys.argv[1] == "run":
        names = sorted(os.listdir(SEEDED)) if sys.argv[2] == "all" else [sys.argv[2]]
        for n in names:
            if os.path.isdir(os.path.join(SEEDED, n)):
                do_run(n, sys.argv[3:])
