#!/usr/bin/env python3-vt
import json, sys, glob, jsonschema
sch = json.load(open("/root/.vp/EVIDENCE.schema.json"))
bad = 0
for p in sorted(glob.glob("/verif/evidence/*.json")):
    try:
        jsonschema.validate(json.load(open(p)), sch)
        print("ok ", p)
    except Exception as e:
        bad += 1
        print("BAD", p, str(e)[:300])
sys.exit(1 if bad else 0)
