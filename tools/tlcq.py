#!/venv/bin/python
"""tlcq.py <Module> <cfg> [workers] - run TLC and print a compact summary (for interactive use)."""
import sys, re
sys.path.insert(0, "/verif")
from harness import tlc
r = tlc.run(sys.argv[1], sys.argv[2], "/verif/.work/t", workers=int(sys.argv[3]) if len(sys.argv) > 3 else 16)
print(sys.argv[2], "rc", r.rc, "generated", r.generated, "distinct", r.distinct, "depth", r.depth, "%.1fs" % r.wall, r.violated)
if not r.ok:
    lines = r.out.splitlines()
    keep, on = [], False
    for l in lines:
        if re.match(r"(Semantic errors|\*\*\* Errors|Error:|\*\*\*Parse Error)", l) or "Error" in l and "line" in l:
            on = True
        if on and l.strip() and not l.startswith("Parsing file") and not l.startswith("Semantic processing"):
            keep.append(l[:220])
    print("\n".join(keep[:45]))
