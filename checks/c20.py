"""C20 - encutils reports the document encoding by the documented precedence."""
import json
from harness import matrix
from harness.report import Run


def sig(t, step, clause):
    a = t["item"]
    if a["kind"] == "info":
        detail = "doc=%s|mt=%s" % (a["doc"], a["mt"] if clause != "ReturnsEncodingInfo" else "*")
        if clause in ("XmlEncodingReported", "EncodingFollowsPrecedence", "MismatchIffTwoKnownSourcesDiffer"):
            detail += "|xml=%s" % a["xml"].split(":")[0]
        return "C20|Encutils|%s|%s" % (clause, detail)
    if a["kind"] == "sniff":
        return "C20|Sniff|%s|doc=%s|xml=%s|short=%s" % (clause, a["doc"], a["xml"].split(":")[0], a["short"]) + ("" if a.get("incdef", True) else "|includeDefault=False")
    return "C20|MediaType|%s|%s" % (clause, a["mt"])


def corrupt(t):
    if t["item"]["kind"] == "info" and t["steps"][0]["out"] == "ok":
        t["steps"][0]["post"]["encoding"] = "x-tampered"
        return t
    return None


def main(tier, seed):
    run = Run("C20", tier, seed)
    rows = matrix.enumerate_rows(run, "Encutils", "Encutils.cfg")
    matrix.judge(run, "EncutilsTrace", "adapters.encutils_", "run_row", rows, sig, corrupt,
                 what=lambda t, s: json.dumps(t["item"]), nontrivial=lambda t: json.dumps(t["item"], sort_keys=True))
    run.cov["exhaustive"] = True
    run.cov["rule"] = ("TLC enumerates the complete decision table: 8 media-type classes x transport charset (none + 3) x XML "
                       "declaration / BOM (8 forms) x meta (none + 3) x document as text / bytes = 2048 rows, plus 96 sniffer rows "
                       "(8 declaration / BOM forms x text / stream / bytes x stream position 0 / 3 x includeDefault on / off) and 8 media-type rows; every row is a distinct case")
    run.assumptions += ["a response without Content-Type header and a missing response object are not part of the table (the "
                        "statement does not say what they yield)",
                        "whether an XML default (no declaration, no BOM) takes part in mismatch detection is left open"]
    return run.finish()
