"""C11 - a rejected DOM mutation changes nothing."""
import json
from collections import Counter
from harness import matrix
from harness.report import Run, Machinery


def sig(t, step, clause):
    a = t["item"]
    return "C11|Mutators|%s|%s.%s|%s" % (clause, a["cls"], a["mut"], "readonly" if a["readonly"] else a["stage"])


def corrupt(t):
    if t["steps"][0]["out"] not in ("ok",) and not t["steps"][0]["out"].startswith("EXC"):
        t["steps"][0]["post"]["target"] += " /*tampered*/"
        return t
    return None


def main(tier, seed):
    run = Run("C11", tier, seed)
    cells = matrix.enumerate_rows(run, "Mutators", "Mutators.cfg")
    traces = matrix.judge(run, "MutatorsTrace", "adapters.mutators", "run_cell", cells, sig, corrupt,
                          what=lambda t, s: json.dumps(t["item"]),
                          nontrivial=lambda t: json.dumps(t["item"], sort_keys=True) if t["steps"][0]["out"] != "ok" else None)
    outs = Counter(t["steps"][0]["out"] for t in traces)
    rejected = sum(v for k, v in outs.items() if k != "ok" and not k.startswith("EXC"))
    if rejected < 100:
        raise Machinery("only %d cells ended in a DOM exception - the matrix does not exercise rejection" % rejected)
    run.notes["outcomes"] = dict(outs)
    run.notes["cells_enumerated_by_tlc"] = len(cells)
    run.cov["exhaustive"] = True
    run.cov["rule"] = ("TLC enumerates the complete matrix class x mutator x rejection stage (immediate / late / nested / wrong rule type / "
                       "hierarchy / index) x prior state (fresh, populated) x attachment (stand-alone, in a sheet) x read-only; every cell "
                       "with a rendering is executed once; non-trivial = the call ended in an exception (only those are constrained by C11); "
                       "additional rejected-unchanged clauses are evaluated on every trace of the C09, C10, C15 and C17 checks")
    run.assumptions += ["the fingerprint is the serialisation of target / owner rule / sheet plus the structural lists named in the property",
                        "cells whose input the implementation accepts are not constrained by C11 (counted under outcome 'ok')"]
    return run.finish()
