"""C12 - no hidden state: history-independent results, global modes restored."""
import json, os
from harness import history, tlc, pool
from harness.report import Run, Machinery


def sig(trace, step, clause):
    a = trace["steps"][step - 1]["a"] if step else {"op": "init"}
    extra = ""
    if a["op"] == "parse":
        extra = ":%s:%s:%s" % ("module" if a["p"] == "module" else "parser", a["entry"], a["fault"])
    return "C12|Globals|%s|%s%s" % (clause, a["op"], extra)


def corrupt(t):
    for s in t["steps"]:
        if s["a"]["op"] == "parse":
            s["post"]["mode"] = not s["post"]["mode"]
            return t
    return None


def nontrivial(pre, s):
    if s["a"]["op"] in ("parse", "probe", "combine", "domedit", "mqedit"):
        return json.dumps([pre["mode"], pre["prefs"], s["a"]], sort_keys=True)
    return None


def main(tier, seed):
    q = tier == "quick"
    run = Run("C12", tier, seed)
    dev = tlc.run("Globals", "Globals_deviation.cfg", run.work + "/dev", workers=4)
    if "ModeIsContractMode" not in dev.violated:
        raise Machinery("algorithm layer with deviations does not violate ModeIsContractMode - invariant vacuous?")
    run.notes["deviation_model"] = "ModeIsContractMode violated as expected with Deviations=TRUE (restore without finally / to construction-time mode)"
    # reference probe results: one fresh process per (mode, preference assignment)
    combos = [{"mode": m, "pref": p} for m in (True, False) for p in ("default", "minified", "nocomments")]
    fresh = pool.map_items("adapters.globals_", "fresh_item", combos, nproc=6, initname=None, fresh_every=1, chunksize=1)
    table = {"%s|%s" % (f["mode"], f["pref"]): f["result"] for f in fresh}
    tmpdir = os.path.join(run.work, "files")
    os.makedirs(tmpdir, exist_ok=True)

    def add_probe(actions):
        # every behaviour ends with a probe, and gets one in the middle
        acts = list(actions)
        if acts and acts[-1]["op"] != "probe":
            acts.append({"op": "probe"})
        return acts

    return history.check(
        "C12", tier, seed, run=run, machine="Globals", mc_cfg="Globals_%s.cfg" % tier, gen_cfg="Globals_gen_%s.cfg" % tier,
        trace_module="GlobalsTrace", adapter="adapters.globals_", sig=sig, corrupt=corrupt,
        variants=[{"fresh": table, "tmpdir": tmpdir}], post_actions=add_probe, fresh_process=True,
        tour_cap=1500 if q else 20000, n_walks=200 if q else 3000, walk_len=12 if q else 25, nontrivial=nontrivial,
        rule="transition tour over the (mode, parser objects, preference assignment) machine x every enabled call "
             "(parser construction in both parse modes, mode changes, parse through six entry points with faults "
             "none/malformed/undecodable/fetcher-throws/missing-file, rejected DOM edit, media query edit, serialise, csscombine, "
             "preference changes, probe), each behaviour in a freshly forked process and ending in the probe battery whose "
             "reference comes from other fresh processes; non-trivial = parse/probe/combine/edit steps; distinct by (mode, prefs, action)",
        assumptions=["fault injection covers UnicodeDecodeError, a throwing fetcher, a missing file and DOM exceptions from a raising parser",
                     "savedTokens / push-back leftovers are logged; they are a violation only when a probe differs (design 5 C12)"])
