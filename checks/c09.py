"""C09 - a stylesheet stays structurally valid under any sequence of DOM edits."""
import json
from harness import history, tlc
from harness.report import Run, Machinery


def sig(trace, step, clause):
    a = trace["steps"][step - 1]["a"] if step else {"op": "init"}
    what = a["op"]
    if "r" in a:
        what += ":" + a["r"]["k"] + ":" + a.get("how", "")
    if "c" in a:
        what += ":" + a["c"]
    detail = ""
    if step and clause in ("ParentMirror", "DetachedHaveNoParent"):
        post = trace["steps"][step - 1]["post"]
        bad = [x for x in (post["parents"] if clause == "ParentMirror" else post["detached"]) if x not in ("ok", "none")]
        detail = "|" + (bad[0].split("]")[-1] if bad else "")
    return "C09|SheetDOM|%s|%s%s" % (clause, what, detail)


def corrupt(t):
    for s in t["steps"]:
        if s["post"]["parents"]:
            s["post"]["parents"][0] = "rule[0].parentStyleSheet"
            return t
    return None


def nontrivial(pre, s):
    if pre["rules"] != s["post"]["rules"] or s["out"] != "ok":
        return json.dumps([pre["rules"], s["a"]], sort_keys=True)
    return None


def variants(actions, n):
    """plain / re-assigned (every third behaviour); behaviours that declare prefix p and later create a style rule are replayed a
    second time with the style rules USING that namespace (a delete or re-binding of the declaration is then refused)"""
    out = [{"reparse": True}] if n % 3 == 2 else [{}]
    txt = json.dumps(actions[:-1])
    if '"p=u' in txt and '"style"' in txt:
        out.append({"nsuse": True})
    return out


def sig_sys(trace, step, clause):
    s = trace["steps"][step - 1] if step else None
    return "C09|System|%s|%s" % (clause, "%s.%s" % (s["target"], s["a"]["op"]) if s else "init")


def corrupt_sys(t):
    # an edit of one block is recorded as having changed the other block as well
    for s in t["steps"]:
        if s["target"] == "d1" and s["out"] == "ok" and s["post"]["d1"]["list"]:
            s["post"]["d2"]["text"] += " /*tampered*/"
            return t
    return None


def nontrivial_sys(pre, s):
    if s["out"] != "ok" or pre["sheettext"] != s["post"]["sheettext"]:
        return json.dumps([[pre[c]["list"] for c in ("d1", "d2", "ml")], pre["s1"], pre["s2"], s["target"], s["a"]], sort_keys=True)
    return None


def system_walks(run, tier, seed):
    """composition (spec/System.tla): nested objects of ONE sheet edited through the DOM; component contracts + frame + C09 clauses"""
    q = tier == "quick"
    return history.check(
        "C09", tier, seed, run=run, machine="System", mc_cfg="System_%s.cfg" % tier, gen_cfg="System_gen_%s.cfg" % tier,
        trace_module="SystemTrace", adapter="adapters.system_", sig=sig_sys, corrupt=corrupt_sys,
        tour_cap=8000 if q else 60000, n_walks=200 if q else 3000, walk_len=20 if q else 40, nontrivial=nontrivial_sys,
        variants=[{}, {"refetch": True}, {"asobj": True}], finish=False,
        assumptions=["composition machine: skeleton '@media <ml> { <s1> { <d1> } } <s2> { <d2> }' is fixed; component alphabets are "
                     "reduced versions of the DeclBlock / MediaList alphabets"])


def main(tier, seed):
    q = tier == "quick"
    run = Run("C09", tier, seed)
    system_walks(run, tier, seed)
    dev = tlc.run("SheetDOM", "SheetDOM_deviation.cfg", run.work + "/dev", workers=8)
    if "AlwaysValid" not in dev.violated:
        raise Machinery("algorithm layer with the historical placement does not violate AlwaysValid - invariant vacuous?")
    run.notes["deviation_model"] = "AlwaysValid violated as expected with Deviations=TRUE (comment, import + add(namespace))"
    return history.check(
        "C09", tier, seed, run=run, machine="SheetDOM", mc_cfg="SheetDOM_%s.cfg" % tier, gen_cfg="SheetDOM_gen_%s.cfg" % tier,
        trace_module="SheetDOMTrace", adapter="adapters.sheetdom", sig=sig, corrupt=corrupt,
        tour_cap=25000 if q else 150000, n_walks=300 if q else 1000, walk_len=25 if q else 40, nontrivial=nontrivial,
        variants=variants,
        rule="transition tour over the algorithm-layer machine (rule lists <=2 quick / <=3 thorough in the generation config) x every "
             "enabled edit: insertRule at every index incl. one past the end, ordered add, deleteRule, cssText and encoding "
             "assignment, nested @media/@page insert/add/delete; rules given as text and as objects; plus TLC-simulated walks; "
             "after each step TLC checks OneCharsetFirst, Ordered, ChildrenAllowed, ParentMirror, DetachedHaveNoParent, "
             "ReparseKeepsEveryRule and that the step is one the contract allows; non-trivial = rule list changed or call rejected",
        assumptions=["rule payloads are fixed templates; the serializer runs with keepEmptyRules=True (dropping empty rules is a "
                     "documented preference effect, C06)", "style rules inside @page are not generated (property silent)"])
