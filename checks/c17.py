"""C17 - media lists are canonical ordered sets; media queries survive intact."""
import json
from harness import history


def sig(trace, step, clause):
    a = trace["steps"][step - 1]["a"] if step else {"op": "init"}
    extra = ""
    if a["op"] == "settext":
        extra = ("comment" if a.get("comment") else "plain") + "," + ",".join(sorted({q for q in a["qs"] if q.startswith("#bad")}))
    elif a.get("q", "").startswith("#bad"):
        extra = a["q"]
    if a["op"] == "setitem" and step:
        # how the observed list fails to be canonical after an item assignment
        lst = trace["steps"][step - 1]["post"]["list"]
        simple = [q for q in lst if " " not in q and "(" not in q]
        kinds = []
        if len(simple) != len(set(simple)):
            kinds.append("duplicate-simple-type")
        if "all" in lst and len(lst) > 1:
            kinds.append("all-not-alone")
        extra = "+".join(kinds) or extra
    return "C17|MediaList|%s|%s|%s" % (clause, a["op"], extra)


def corrupt(t):
    for s in reversed(t["steps"]):
        if len(s["post"]["list"]) >= 1:
            s["post"]["reparsed"] = s["post"]["reparsed"] + ["tv"]
            return t
    return None


def nontrivial(pre, s):
    if pre["list"] != s["post"]["list"] or s["out"] != "ok":
        return json.dumps([pre["list"], s["a"]], sort_keys=True)
    return None


def main(tier, seed):
    q = tier == "quick"
    return history.check(
        "C17", tier, seed, machine="MediaList", mc_cfg="MediaList_%s.cfg" % tier, gen_cfg="MediaList_gen_%s.cfg" % tier,
        trace_module="MediaListTrace", adapter="adapters.medialist", sig=sig, corrupt=corrupt,
        variants=[{"owner": "none", "mode": "raise"}, {"owner": "media", "mode": "raise"}, {"owner": "import", "mode": "raise"},
                  {"owner": "none", "mode": "log"}, {"owner": "media", "mode": "log"}, {"owner": "import", "mode": "log"}, {"owner": "none", "mode": "raise"},
                  {"owner": "import-reassigned", "mode": "raise"}, {"owner": "media-reassigned", "mode": "raise"},
                  {"owner": "media", "mode": "raise", "viaquery": True}, {"owner": "none", "mode": "raise", "viaquery": True}],
        tour_cap=30000 if q else 150000, n_walks=300 if q else 3000, walk_len=25 if q else 40, nontrivial=nontrivial,
        rule="transition tour: every reachable canonical list (TLC BFS, with/without leading comment) x every action "
             "(mediaText assignment of 0-3 queries incl. malformed ones, appendMedium, deleteMedium, item assignment), on a "
             "stand-alone list and on the lists of an @media and an @import rule, plus seeded random walks; non-trivial = "
             "changed the list or was rejected; distinct = distinct (pre-list, action)",
        assumptions=["query texts come from a small alphabet of simple types (with case variants) and feature queries; "
                     "'all' mixed with feature queries and out-of-range indexes are not generated (property silent)",
                     "the adapter lower-cases and whitespace-normalises query texts before they reach the contract"])
