"""C05 - tokenizer: total, lossless, position-accurate, classifies by the grammar."""
import json, random, glob
from harness import matrix
from harness.report import Run


def sig(t, step, clause):
    a = t["item"]
    p = t["steps"][0]["post"]
    if a["kind"] == "classify":
        return "C05|Lex|%s|%s|%s|%s" % (clause, a["a"], a["sep"], a["b"])
    if a["kind"] == "errorpos":
        return "C05|ErrorPos|%s|%s" % (clause, a.get("case", ""))
    if clause in ("ValueIsDecodedSpan", "LastValueIsDecodedSpanPossiblyCompleted"):
        text = "".join(chr(c) for c in p["text"])
        kind = "escaped-backslash-before-hex-or-newline" if "\\\\" in text else "other"
        return "C05|Lex|%s|%s" % (clause, kind)
    return "C05|Lex|%s|%s" % (clause, scenario(p))


def scenario(p):
    """coarse class of the text of a failing row (keeps known-finding keys stable across seeds)"""
    text = "".join(chr(c) for c in p["text"])
    tags = []
    if "\\\\" in text:
        tags.append("escaped-backslash")
    if "\\" in text and "\\\\" not in text:
        tags.append("backslash")
    if any(c in text for c in "\r\f"):
        tags.append("cr-or-ff")
    if text[:2] in ("\u00fe\u00ff",) or text[:3] == "\u00ef\u00bb\u00bf":
        tags.append("mojibake-bom")
    if text.startswith("@charset "):
        tags.append("charset-at-0")
    return "+".join(tags) or "plain"


def corrupt(t):
    p = t["steps"][0]["post"]
    if p["kind"] == "lex" and p["out"] == "ok" and len([k for k in p["toks"] if k["type"] not in ("EOF", "BOM")]) >= 2:
        toks = [k for k in p["toks"] if k["type"] not in ("EOF", "BOM")]
        toks[1]["col"] += 1
        return t
    return None


def error_cases():
    """(3) damaged sheets: the offending token and its position are known by construction"""
    cases = []
    pre = ["", "a { left: 0 }\n", "/* c\n c */\n\n  ", "a,\n b {\n  top: 1px;\n }\n\t"]
    for i, p in enumerate(pre):
        line = p.count("\n") + 1
        col = len(p) - (p.rfind("\n") + 1) + 1
        cases.append({"kind": "errorpos", "case": "selector-dollar", "text": p + "$ { left: 0 }", "expline": line, "expcol": col})
        cases.append({"kind": "errorpos", "case": "declaration-dollar", "text": p + "a { left: 0; $x: 1 }", "expline": line, "expcol": col + 13})
        cases.append({"kind": "errorpos", "case": "attribute-without-value", "text": p + "a[b=] { left: 0 }", "expline": line, "expcol": col + 4})
        cases.append({"kind": "errorpos", "case": "import-inside-media", "text": p + '@media print {\n  a { left: 0 }\n  @import "x";\n}',
                      "expline": line + 2, "expcol": 3})
        cases.append({"kind": "errorpos", "case": "import-late", "text": "x { left: 0 }\n" + p + '@import "y";', "expline": line + 1,
                      "expcol": col})
    # reports that name no token carry no position - also right after a report that did (no position left over from it)
    for before in ("", "a { left: 0 }\n\n  $ { left: 0 }"):
        for t in ('@charset "nonsense-enc";', '@import "x" 3d;'):
            cases.append({"kind": "errorpos", "case": "no-token" + ("-after-token-report" if before else ""), "text": t, "before": before,
                          "expline": 0, "expcol": 0})
    return cases


def extra_texts(tier, seed):
    rng = random.Random(seed)
    rows = []
    # every code point as a one-character text and after 'a' (stratified: all below U+0300, boundaries, a stride above)
    stride = 4099 if tier == "quick" else 257
    cpsel = list(range(0, 0x300)) + list(range(0x300, 0x110000, stride)) + [0xD7FF, 0xE000, 0xFEFF, 0xFFFE, 0xFFFF, 0x10000, 0x10FFFF]
    for c in cpsel:
        if 0xD800 <= c <= 0xDFFF:
            continue
        rows.append({"kind": "lex", "form": "cps", "cps": [c], "full": False})
        rows.append({"kind": "lex", "form": "cps", "cps": [97, c, 98], "full": True})
    # statements of the repository's sheets (slices <= 160 characters) and seeded random mutations of them
    n = 0
    for path in sorted(glob.glob(__import__("os").environ.get("VERIF_REPO", "/repo") + "/sheets/*.css")):
        try:
            text = open(path, "rb").read().decode("utf-8", "replace")
        except OSError:
            continue
        for chunk in [text[i:i + 160] for i in range(0, min(len(text), 160 * (6 if tier == "quick" else 40)), 160)]:
            rows.append({"kind": "lex", "form": "cps", "cps": [ord(c) for c in chunk], "full": n % 2 == 0})
            n += 1
            if n % 3 == 0 and chunk:
                k = rng.randrange(len(chunk))
                mut = chunk[:k] + rng.choice(['\\', '"', "'", "/*", "\n", "\\61 ", "url(", "\r\n", "\f"]) + chunk[k:]
                rows.append({"kind": "lex", "form": "cps", "cps": [ord(c) for c in mut], "full": True})
    return rows


def main(tier, seed):
    run = Run("C05", tier, seed)
    rows = matrix.enumerate_rows(run, "Lex", "Lex_%s.cfg" % tier, heap="8g")
    extra = extra_texts(tier, seed) + error_cases()
    matrix.judge(run, "LexTrace", "adapters.lex", "run_row", rows + extra, sig, corrupt, chunk=3000, hard_timeout=45,
                 what=lambda t, s: json.dumps({k: v for k, v in t["item"].items() if k not in ("cps",)})[:300],
                 nontrivial=lambda t: json.dumps(t["steps"][0]["post"]["text"]),
                 sample_fmt=lambda t: {"text": "".join(chr(c) for c in t["steps"][0]["post"].get("text", []))[:80] if isinstance(t["steps"][0]["post"].get("text"), list) else t["steps"][0]["post"].get("text"),
                                       "tokens": [(k["type"], "".join(chr(c) for c in k["value"]), k["line"], k["col"]) for k in t["steps"][0]["post"].get("toks", [])][:8]})
    run.notes["tlc_rows"] = len(rows)
    run.notes["extra_rows"] = len(extra)
    run.cov["exhaustive"] = False
    run.cov["rule"] = ("(1) universal monitor on every string of <=3 characters over the character classes (x fullsheet on/off), every string "
                       "of <=4/5 over the escape alphabet, a stratified set of code points as one-character texts and between letters, "
                       "160-character slices of the repository's sheets and seeded mutations of them; (2) every pair of grammar tokens "
                       "from the 77-entry token table x every separator that the spec's SepOk relation declares unambiguous, and "
                       "'@charset ' at offset 0 before every token; (3) error positions for damaged sheets; distinct = distinct texts")
    run.assumptions += ["character classes are instantiated with one concrete code point each; the code-point sweep is stratified, not complete",
                        "simple escapes may be kept or resolved in token values; token types outside cssutils' decoded list may carry the raw span"]
    return run.finish()
