"""C15 - namespace declarations and namespaced selectors stay consistent."""
import json
from harness import history


def sig(trace, step, clause):
    a = trace["steps"][step - 1]["a"] if step else {"op": "init"}
    extra = a.get("form", "")
    if a["op"] in ("nsset", "nsdel", "setprefix", "addns", "insertns"):
        extra = "prefix=%s" % ("default" if a.get("p") == "" else "named")
    post = trace["steps"][step - 1]["post"] if step else trace["init"]
    if clause == "RejectedUnchanged" and a["op"] in ("addns", "insertns", "nsset"):
        pre = trace["steps"][step - 2]["post"] if step > 1 else trace["init"]
        pfx = any(p == a["p"] and u != a["u"] for p, u in pre["nsrules"])
        uri = any(u == a["u"] and p != a["p"] for p, u in pre["nsrules"])
        if pfx and uri:
            return "C15|Namespaces|RejectedUnchanged|declaration-rebinds-a-bound-prefix-to-a-uri-bound-to-another-prefix"
    if clause == "UnprefixedFollowsDefault":
        stored = {it["uri"] for s in post["sels"] if s["where"] == "sheet" for it in s["items"] if it["kind"] == "default"}
        return "C15|Namespaces|%s|stored-%s" % (clause, "none" if stored == {"none"} else "uri")
    if clause == "SerialisationReresolves":
        default = dict((p, u) for p, u in post["mapping"]).get("", "none")
        att = [s for s in post["sels"] if s["where"] == "sheet"]
        kinds = set()
        for s, r in zip(att, post["reparse"]["sels"]):
            for k_, it in enumerate(s["items"]):
                if it["kind"] == "explicit" and (k_ >= len(r) or (r[k_]["uri"], r[k_]["local"]) != (it["uri"], it["local"])):
                    kinds.add("attribute-in-default-namespace" if (it["local"] == "a" and it["uri"] == default) else "other")
        return "C15|Namespaces|%s|%s" % (clause, "+".join(sorted(kinds)))
    return "C15|Namespaces|%s|%s|%s" % (clause, a["op"], extra)


def corrupt(t):
    for s in t["steps"]:
        if s["post"]["nsrules"]:
            s["post"]["mapping"] = []
            return t
    return None


def nontrivial(pre, s):
    if pre["nsrules"] != s["post"]["nsrules"] or pre["sels"] != s["post"]["sels"] or s["out"] != "ok":
        return json.dumps([pre["nsrules"], [x["items"] for x in pre["sels"]], s["a"]], sort_keys=True)
    return None


def parse_sig(t, step, clause):
    a = t["steps"][0]["a"]
    if a["kind"] == "nsdupes":
        return "C15|NsParse|%s|order=%s" % (clause, "".join(a["order"]))
    return "C15|NsParse|%s|declared=%s|late=%s|use=%s" % (clause, a["declared"], a["late"], a["use"])


def parse_corrupt(t):
    o = t["steps"][0]["post"]
    if o["out"] == "ok":
        o["mapping"] = o["mapping"] + [["zz", "u9"]]
        return t
    return None


def main(tier, seed):
    from harness import matrix
    from harness.report import Run
    q = tier == "quick"
    run = Run("C15", tier, seed)
    rows = matrix.enumerate_rows(run, "NsParse", "NsParse.cfg")
    matrix.judge(run, "NsParseTrace", "adapters.namespaces", "run_table_row", rows, parse_sig, parse_corrupt,
                 what=lambda t, s: repr(t["steps"][0]["post"]["text"]), nontrivial=lambda t: json.dumps(t["item"], sort_keys=True))
    run.notes["late_namespace_rows"] = len(rows)
    return history.check(
        "C15", tier, seed, run=run, variants=[{}, {"head": "fontface"}, {"comments": True}, {}, {"head": "comment"}, {"head": "variables"}], machine="Namespaces", mc_cfg="Namespaces_%s.cfg" % tier, gen_cfg="Namespaces_gen_%s.cfg" % tier,
        trace_module="NamespacesTrace", adapter="adapters.namespaces", sig=sig, corrupt=corrupt,
        tour_cap=17000 if q else 200000, n_walks=600 if q else 4000, walk_len=15 if q else 30, nontrivial=nontrivial,
        walk_overrides={"MaxNs": 3},
        rule="transition tour over the intended-semantics machine (<=2 namespace rules, <=1 (quick) / 2 selectors in the generation "
             "config) x every namespace operation: add/insert @namespace (text, object), mapping set/delete, deleteRule, prefix "
             "assignment, adding and rewriting selectors in 7 forms (p|e q|e *|e |e e [p|a] undeclared z|e), detach/attach of "
             "rules; plus TLC-simulated walks; non-trivial = namespace rules or selector items changed, or call rejected",
        assumptions=["one namespaced item per tracked style rule; prefixes {p,q,default}, URIs {u1,u2}",
                     "which of two different URIs bound to the same prefix the mapping shows is left open (property silent)"])
