"""C13 - validation verdict depends only on name, value, profiles; it only annotates."""
import json, sys
from harness import matrix
from harness.report import Run


def sig(t, step, clause):
    a = t["steps"][0]["a"]
    if a["kind"] == "table":
        if a["value"] == "integer" and t["steps"][0]["post"].get("text", "").startswith("+"):
            return "C13|Table|%s|explicit-plus-sign" % clause
        return "C13|Table|%s|%s|%s" % (clause, a["prop"], a["value"])
    if a["kind"] == "meta":
        return "C13|Meta|%s|%s|%s" % (clause, a["name"], a["value"])
    return "C13|Unknown|%s|%s" % (clause, a["name"])


def corrupt(t):
    a = t["steps"][0]["a"]
    if a["kind"] == "table" and t["steps"][0]["post"]["out"] == "ok":
        t["steps"][0]["post"]["valid"] = not t["steps"][0]["post"]["valid"]
        t["steps"][0]["post"]["anyprofile"] = t["steps"][0]["post"]["valid"]
        return t
    return None


def meta_rows():
    """all property names known to the repository's profiles x candidate values (read from /repo at run time)"""
    sys.path.insert(0, "/repo")
    import cssutils
    from adapters.validate_ import CANDIDATES
    rows = []
    for name in sorted(set(cssutils.profile.knownNames)):
        for v in CANDIDATES:
            rows.append({"kind": "meta", "name": name, "value": v})
    for name in ["no-such-property", "colr", "-x-foo", "font-sizes"]:
        for v in ["red", "1px", "inherit"]:
            rows.append({"kind": "unknown", "name": name, "value": v})
    return rows


def main(tier, seed):
    run = Run("C13", tier, seed)
    rows = matrix.enumerate_rows(run, "Validate", "Validate.cfg")
    meta = meta_rows()
    if tier == "quick":
        meta = [m for i, m in enumerate(meta) if m["kind"] == "unknown" or i % 3 == seed % 3]
    matrix.judge(run, "ValidateTrace", "adapters.validate_", "run_row", rows + meta, sig, corrupt, chunk=1500,
                 what=lambda t, s: json.dumps(t["item"])[:200], nontrivial=lambda t: json.dumps(t["item"], sort_keys=True))
    run.notes["table_rows"] = len(rows)
    run.notes["metamorphic_rows"] = len(meta)
    run.cov["exhaustive"] = tier != "quick"
    run.cov["rule"] = ("TLC enumerates the CSS 2.1 table: 55 properties whose grammar is a keyword list or a single length/percentage/number/"
                       "integer/colour/URI x (every keyword of every such property, near-miss spellings, 18 abstract value kinds, inherit); "
                       "plus, for every property name known to /repo's profiles x 20 candidate values, the metamorphic variants "
                       "(4 spellings, round trip, 4 origins, rule/sheet conjunction, validation on/off) - one third of them per quick run, "
                       "all in the thorough tier")
    run.assumptions += ["the table verdict is read from validateWithProfile(..., CSS_LEVEL_2) so that CSS3 modules cannot cause false alarms",
                        "negative values for properties whose CSS 2.1 grammar (not prose) allows them are left open"]
    return run.finish()
