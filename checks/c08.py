"""C08 - sheet/import encoding precedence; serialised bytes decodable and lossless."""
import json
from harness import matrix
from harness.report import Run


def sig(t, step, clause):
    a = t["item"]
    if a["kind"] == "chain":
        n = a["chain"][-1]
        return "C08|EncChain|%s|depth=%d|override=%s|root=%s|last=http:%s,mark:%s,text:%s,fetch:%s" % (
            clause, len(a["chain"]), a["root"]["override"] != "none", a["root"]["mark"] != "none",
            n["http"] != "none", n["mark"].split(":")[0], n["text"], n["fetch"])
    if a["kind"] == "edit":
        return "C08|EncEdit|%s|%s|target=%s|newenc=%s|new=http:%s,mark:%s" % (clause, a["how"], a["target"], a["newenc"] != "none",
                                                                        a["newnode"]["http"] != "none", a["newnode"]["mark"].split(":")[0])
    return "C08|Escape|%s|%s|%s|%s" % (clause, a["target"], a["pos"], "+".join(map(str, a["cps"])))


def corrupt(t):
    p = t["steps"][0]["post"]
    if t["item"]["kind"] == "chain" and p["out"] == "ok" and p["levels"] and p["levels"][0]["found"]:
        p["levels"][0]["enc"] = "x-tampered"
        return t
    return None


def main(tier, seed):
    run = Run("C08", tier, seed)
    rows = matrix.enumerate_rows(run, "EncChain", "EncChain_%s.cfg" % tier)
    matrix.judge(run, "EncChainTrace", "adapters.encchain", "run_row", rows, sig, corrupt,
                 what=lambda t, s: json.dumps(t["item"]), nontrivial=lambda t: json.dumps(t["item"], sort_keys=True))
    run.cov["exhaustive"] = True
    run.cov["rule"] = ("TLC enumerates import chains: root (override y/n x @charset none/2 encodings x bytes/text) x depth-1 node "
                       "(transport charset none/2 x BOM/@charset/neither x bytes/text x fetcher data/None/(None,None)) exhaustively, depth 2 "
                       "with a reduced first level (depth 3 in the thorough tier), and 180 escape cases (6 target encodings x 6 "
                       "character strings x 5 syntactic positions); every row is a distinct case")
    run.assumptions += ["four mutually distinguishable encodings with probe characters; a BOM mark is only combined with no transport "
                        "charset and no override (otherwise the content would be malformed in the chosen encoding)"]
    return run.finish()
