"""C18 - value normalisation never changes what a value denotes."""
import json
from harness import matrix
from harness.report import Run


def sig(t, step, clause):
    a = t["steps"][0]["a"]
    if a["kind"] == "number":
        n = a["n"]
        shape = "int%d.frac%d" % (len(n["int"]), len(n["frac"]))
        zero = not any(n["int"]) and not any(n["frac"])
        return "C18|Number|%s|sign=%s|%s|%s|unit=%s|olz=%s" % (clause, n["sign"], shape, "zero" if zero else "nonzero", n["unit"] or "none", a["olz"])
    if a["kind"] == "hash":
        return "C18|Hash|%s|len=%d|minimize=%s" % (clause, len(a["h"]), a["minimize"])
    if a["kind"] in ("colour", "named"):
        bad = [f["text"].split("(")[0] for f in t["steps"][0]["post"]["forms"] if f["out"] != "ok" or f["channels"] != a["rgb"] or f["rechannels"] != a["rgb"] or f["alpha"] != a["alpha"]]
        return "C18|Colour|%s|%s|alpha=%s" % (clause, bad[0] if bad else "", a["alpha"])
    return "C18|List|%s|%s" % (clause, "".join(c if c in " ,/" else "x" for c in a["comps"]))


def corrupt(t):
    a = t["steps"][0]["a"]
    if a["kind"] == "number" and t["steps"][0]["post"]["out"] == "ok":
        t["steps"][0]["post"]["ser"]["frac"] = t["steps"][0]["post"]["ser"]["frac"] + [7]
        return t
    return None


def main(tier, seed):
    run = Run("C18", tier, seed)
    rows = matrix.enumerate_rows(run, "Values", "Values_%s.cfg" % tier, heap="8g")
    matrix.judge(run, "ValuesTrace", "adapters.values_", "run_row", rows, sig, corrupt, chunk=2500,
                 what=lambda t, s: json.dumps(t["item"])[:260], nontrivial=lambda t: json.dumps(t["item"], sort_keys=True))
    # strings and URLs: exact character content through quoting and escaping (rows and contract shared with C03)
    crow = [r for r in matrix.enumerate_rows(run, "Content", "Content_%s.cfg" % tier) if r.get("kind") == "content" and r["pos"] in ("string", "url") and r["enc"] == "utf-8"]
    from checks import c03
    matrix.judge(run, "RoundTripTrace", "adapters.roundtrip", "run_content", crow, lambda t, s, c: c03.sig(t, s, c).replace("C03|", "C18|"), c03.corrupt,
                 what=c03.what, chunk=1500, nontrivial=lambda t: t["item"]["src"])
    run.cov["exhaustive"] = True
    run.cov["rule"] = ("TLC enumerates decimal literals (3 signs x integer digit strings x fraction digit strings up to 6 digits x units x "
                       "omitLeadingZero), proving Den(Canon(n)) = Den(n) by digit arithmetic on each; all 4096 short hash colours and all "
                       "long hashes over boundary digits x minimizeColorHash; colours on the exact-percentage grid in every written form "
                       "(rgb integers, percentages, #rrggbb, #rgb, rgba, hsl/hsla where exact) and the 17 CSS 2.1 keywords in 3 "
                       "letter cases; component lists with every separator pattern; every row is a distinct case")
    run.assumptions += ["literals have at most 6 fractional and 15 significant digits (binary64 is exact there); the typed value is read "
                        "with '%.15g'", "string and URL content uses the Content.tla rows and the RoundTripContract clauses shared with C03; the known C03 findings about an escaped backslash / control character in quoted content apply here too"]
    return run.finish()
