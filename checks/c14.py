"""C14 - the profile registry's verdicts depend on its contents, not its history."""
import json
from harness import history, tlc
from harness.report import Run, Machinery


def sig(trace, step, clause):
    a = trace["steps"][step - 1]["a"] if step else {"op": "init"}
    if clause == "VerdictsAreFunctionOfContents":
        # which kind of operation earlier in the history made the registry depend on its past
        ops = {s["a"]["op"] for s in trace["steps"][:step]}
        culprit = "after-removeall" if "removeall" in ops else ("after-addbatch" if ops & {"addbatch", "addbuiltin"} else "other")
        return "C14|Profiles|%s|%s" % (clause, culprit)
    return "C14|Profiles|%s|%s" % (clause, a["op"])


def corrupt(t):
    for s in t["steps"]:
        for v in s["post"]["versions"]:
            if v["accepted"]:
                v["accepted"] = []
                return t
    return None


def nontrivial(pre, s):
    if pre["names"] != s["post"]["names"] or pre["defaults"] != s["post"]["defaults"] or s["out"] != "ok":
        return json.dumps([pre["names"], pre["defaults"], s["a"]], sort_keys=True)
    return None


def main(tier, seed):
    q = tier == "quick"
    run = Run("C14", tier, seed)
    # the algorithm layer with the code's deviations switched on must violate HistoryFree (the model reproduces the
    # defect class); this is a vacuity guard for the invariant, not a verdict about the code
    dev = tlc.run("Profiles", "Profiles_deviation.cfg", run.work + "/dev", workers=4)
    if "HistoryFree" not in dev.violated:
        raise Machinery("algorithm layer with deviations does not violate HistoryFree - invariant vacuous?")
    run.notes["deviation_model"] = "HistoryFree violated as expected with Deviations=TRUE (stale macro cache modelled)"
    return history.check(
        "C14", tier, seed, run=run, machine="Profiles", mc_cfg="Profiles_%s.cfg" % tier, gen_cfg="Profiles_gen_%s.cfg" % tier,
        trace_module="ProfilesTrace", adapter="adapters.profiles", sig=sig, corrupt=corrupt,
        tour_cap=9000 if q else 60000, n_walks=150 if q else 3000, walk_len=12 if q else 30, nontrivial=nontrivial,
        variants=[{}, {"detour": True}],
        rule="transition tour over every explored (registry contents, macro cache) state x enabled registry operation "
             "(addProfile, addProfiles of pairs, re-adding the built-ins, removeProfile incl. unknown names, removeProfile(all), "
             "defaultProfiles assignments) plus TLC-simulated walks; after each step the verdict vector of 11 probes "
             "(26 literals) identifies the macro version every probed property is compiled with; non-trivial = contents "
             "changed or call rejected",
        assumptions=["four custom profiles with literal macro bodies stand for 'profiles that introduce, redefine and shadow macros'",
                     "defaultProfiles is only assigned to registered profiles; a profile named there is not removed (property silent)"])
