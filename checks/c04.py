"""C04 - syntax errors are contained: only the malformed construct is dropped."""
import json
from harness import matrix
from harness.report import Run
from checks.c02 import diff


def sig(t, step, clause):
    a = t["steps"][0]["a"]
    p = t["steps"][0]["post"]
    if a["kind"] == "damage":
        d = diff(a["ast"], p["dom"]) if p["out"] == "ok" else p["out"]
        first = a["g"][0] if a["g"] else ""
        return "C04|Damage|%s|%s|starts-with:%s|%s" % (clause, a["what"], first, (d or "")[:60])
    bad = [c for c in p["cuts"] if c["out"] != "ok" or c["complete"] != c["dom"][:len(c["complete"])]]
    return "C04|Truncate|%s|base=%s" % (clause, a["base"])


def corrupt(t):
    p = t["steps"][0]["post"]
    if t["steps"][0]["a"]["kind"] == "damage" and p["out"] == "ok" and p["dom"]:
        p["dom"] = p["dom"][:-1]
        return t
    return None


def what(t, s):
    a = t["item"]
    return json.dumps({"what": a.get("what"), "g": a.get("g"), "text": a.get("text", "")[:200]})


def main(tier, seed):
    run = Run("C04", tier, seed)
    rows = matrix.enumerate_rows(run, "Damage", "Damage_%s.cfg" % tier, heap="8g")
    matrix.judge(run, "DamageTrace", "adapters.damage", "run_row", rows, sig, corrupt, what=what, chunk=800,
                 nontrivial=lambda t: t["item"].get("text", "") + str(t["item"].get("what")))
    run.cov["exhaustive"] = True
    run.cov["rule"] = ("TLC enumerates (1) every balanced token sequence of <=2 (quick) / <=3 (thorough) over 17 garbage tokens that is not a "
                       "valid construct, inserted as a malformed declaration at every declaration boundary, as a rule with invalid selector "
                       "and as unknown at-rule (statement and block form) at every statement boundary of the base sheets, and 7 kinds of "
                       "misplaced at-rules; (2) every prefix of the 6 rendered base sheets; distinct = distinct damaged texts")
    run.assumptions += ["the inserted construct itself may or may not appear: unknown rules named @garbage/@kw are removed from the projection "
                        "before comparison", "a declaration counts as complete once its terminator (';' or the block's '}') lies before the cut"]
    return run.finish()
