"""C16 - selector specificity, structure and list semantics."""
import json
from harness import matrix, history
from harness.report import Run


def sig(t, step, clause):
    parts = t["item"]["parts"]
    bad = [s for s in t["steps"][0]["post"]["spellings"] if s["out"] != "ok"]
    kinds = "+".join(sorted({p["k"] + (":" + p["arg"]["k"] if p["k"] == "not" else "") for p in parts}))
    return "C16|Selector|%s|%s%s" % (clause, kinds, "|" + bad[0]["out"] if bad else "")


def corrupt(t):
    sp = t["steps"][0]["post"]["spellings"]
    if sp and sp[0]["out"] == "ok":
        sp[0]["spec"] = [0, 9, 9, 9]
        return t
    return None


def sig_list(trace, step, clause):
    a = trace["steps"][step - 1]["a"] if step else {"op": "init", "mode": ""}
    return "C16|SelList|%s|%s|%s" % (clause, a["op"], a.get("mode", ""))


def corrupt_list(t):
    for s in t["steps"]:
        if s["post"]["list"]:
            s["post"]["length"] += 1
            return t
    return None


def main(tier, seed):
    q = tier == "quick"
    run = Run("C16", tier, seed)
    rows = matrix.enumerate_rows(run, "Selector", "Selector_%s.cfg" % tier, workers=1)
    matrix.judge(run, "SelectorTrace", "adapters.selector_", "run_row", rows, sig, corrupt,
                 what=lambda t, s: json.dumps(t["item"]["parts"]), nontrivial=lambda t: json.dumps(t["item"], sort_keys=True),
                 sample_fmt=lambda t: {"parts": t["item"]["parts"], "spellings": [s["text"] for s in t["steps"][0]["post"]["spellings"]]})
    run.notes["selector_rule"] = ("every selector the generator machine can build with <=%d parts / <=%d compounds (type/universal, id, class, "
                                  "attribute with all 7 operators, pseudo-class, functional pseudo-class, pseudo-element in one- and "
                                  "two-colon form, :not() of 6 argument kinds, 4 combinators) x 5 spellings (whitespace, comments, upper "
                                  "case of pseudo names and :NOT, quotes, escapes)") % ((3, 2) if q else (4, 3))
    return history.check(
        "C16", tier, seed, run=run, machine="SelList", mc_cfg="SelList_%s.cfg" % tier, gen_cfg="SelList_gen_%s.cfg" % tier,
        trace_module="SelListTrace", adapter="adapters.selector_", adapter_fn="run_list_trace", sig=sig_list, corrupt=corrupt_list,
        tour_cap=8000 if q else 60000, n_walks=100 if q else 1000, walk_len=12 if q else 25,
        variants=[{}, {}, {"foreign": True}],
        rule="(1) all selectors of the generator machine x 5 spellings, expected specificity and part sequence by construction; "
             "(2) transition tour + walks over append / selectorText histories of a SelectorList in raise and log mode",
        assumptions=["names come from a fixed vocabulary; pseudo-elements inside :not() are not generated (CSS3 forbids them)"])
