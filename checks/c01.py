"""C01 - parsing any input returns a DOM: it never raises and never hangs."""
import json, glob, random
from harness import matrix
from harness.report import Run


def sig(t, step, clause):
    a, p = t["item"], t["steps"][0]["post"]
    stage = "parse" if p["parsed"] != "ok" else ("ser" if p["ser"] != "ok" else ("reparse" if p["reparse"] != "ok" else "reser"))
    exc = {"parse": p["parsed"], "ser": p["ser"], "reparse": p["reparse"], "reser": p["reser"]}[stage]
    if clause == "ReturnsInBoundedTime":
        what = a.get("opener", "") + "/" + a.get("ctx", "") if a["kind"] == "nest" else (a["kind"] + ":" + a.get("name", "") + ":" + a.get("shape", "") if a["kind"] == "propvalue" else
                "longrun:%s:%s:%s" % (a["opener"], a["body"], a["end"]) if a["kind"] == "longrun" else
                "wide:%s" % a["what"] if a["kind"] == "wide" else a["kind"])
        return "C01|Soup|%s|%s" % (clause, what)
    return "C01|Soup|%s|%s|%s@%s" % (clause, stage, exc, p.get("where", ""))


def corrupt(t):
    p = t["steps"][0]["post"]
    if p["parsed"] == "ok" and p["reser"] == "ok":
        p["reser"] = "TypeError"
        return t
    return None


def sheets(tier, seed):
    rng = random.Random(seed)
    rows = []
    for path in sorted(glob.glob(__import__("os").environ.get("VERIF_REPO", "/repo") + "/sheets/*.css")):
        data = open(path, "rb").read()
        text = data.decode("utf-8", "replace")
        rows.append({"kind": "file", "name": path.rsplit("/", 1)[-1], "text": text[:6000], "entry": "string", "ctx": "sheet"})
        for _ in range(2 if tier == "quick" else 20):
            k = rng.randrange(max(1, len(text)))
            cut = text[:k][-3000:]
            rows.append({"kind": "file", "name": path.rsplit("/", 1)[-1] + ":cut", "text": cut, "entry": "string", "ctx": "sheet"})
            ins = rng.choice(['"', "(", "{", "/*", "\\", "@", "url(", "}", ")", "\x00", "@charset ", "<!--", "!"])
            rows.append({"kind": "file", "name": path.rsplit("/", 1)[-1] + ":mut", "text": (text[:k] + ins + text[k:])[max(0, k - 1500):k + 1500], "entry": "string", "ctx": "sheet"})
    return rows


def main(tier, seed):
    run = Run("C01", tier, seed)
    import os, sys
    sys.path.insert(0, __import__("os").environ.get("VERIF_REPO", "/repo"))
    import cssutils.profiles
    names = sorted({n for g in cssutils.profiles.properties for n in cssutils.profiles.properties[g]})
    if tier == "quick":
        names = [n for i, n in enumerate(names) if (i + seed) % 4 == 0]
    path = os.path.join(run.work, "names.ndjson")
    with open(path, "w") as f:
        for n in names:
            f.write(json.dumps({"name": n}) + "\n")
    run.notes["property_names_for_value_shapes"] = len(names)
    rows = matrix.enumerate_rows(run, "Soup", "Soup_%s.cfg" % tier, heap="8g", env={"NAMES_FILE": path})
    matrix.judge(run, "SoupTrace", "adapters.soup", "run_row", rows, sig, corrupt, chunk=4000, hard_timeout=45,
                 what=lambda t, s: json.dumps({k: v for k, v in t["item"].items() if k in ("kind", "ctx", "toks", "opener", "depth", "text", "graph", "fetch", "entry")})[:300],
                 nontrivial=lambda t: t["item"]["text"] + str(t["item"].get("entry")) + str(t["item"].get("graph")))
    files = sheets(tier, seed)
    matrix.judge(run, "SoupTrace", "adapters.soup", "run_file", files, sig, corrupt, chunk=500, hard_timeout=45,
                 what=lambda t, s: t["item"]["name"], nontrivial=lambda t: t["item"]["text"][:200] + t["item"]["name"])
    run.cov["exhaustive"] = False
    run.cov["rule"] = ("TLC enumerates, over a total context automaton (29 parser contexts, 64 token kinds incl. truncated tokens): every single "
                       "token in every context, token pairs in 10 (quick) / all contexts, triples at sheet level in the thorough tier, nesting "
                       "sweeps of 15 openers x depths up to 100 x 4 contexts x closed/unclosed, and entry point x fetcher kind x import-graph "
                       "shape x text kind; parser options rotate over the rows; plus the repository's sheets with seeded cuts and mutations. "
                       "Each input is parsed under a CPU budget of 1 s + 50 us x n^2, serialised, reparsed and serialised again.")
    run.assumptions += ["CPU time is measured in the worker process; the interpreter's default recursion limit (1000) is the environment bound",
                        "strings are spellings of token sequences, not arbitrary code point soup (the tokenizer's totality over strings is C05)"]
    return run.finish()
