"""C02 - the parsed DOM is exactly what a well-formed source denotes."""
import json
from harness import matrix
from harness.report import Run


def first_bad(t):
    for s in t["steps"][0]["post"]["spellings"]:
        if s["out"] != "ok":
            return s, "out"
        ast = t["steps"][0]["a"]["ast"]
        if s["dom"] != ast:
            return s, "dom"
    for s in t["steps"][0]["post"]["spellings"]:
        if s["novalidate"] != t["steps"][0]["a"]["ast"]:
            return s, "novalidate"
    return t["steps"][0]["post"]["spellings"][0], "nocomments"


def diff(x, y, path=""):
    """first difference between expected x and observed y as a short path of node kinds"""
    if isinstance(x, dict) and isinstance(y, dict):
        here = path + "/" + str(x.get("k", x.get("t", "")))
        for key in x:
            if key not in y:
                return here + "." + key + ":missing"
            d = diff(x[key], y[key], here + "." + key)
            if d:
                return d
        return None
    if isinstance(x, list) and isinstance(y, list):
        for i, (a, b) in enumerate(zip(x, y)):
            d = diff(a, b, path)
            if d:
                return d
        if len(x) != len(y):
            kind = (x[len(y)] if len(x) > len(y) else y[len(x)])
            kind = kind.get("k", kind.get("t", "")) if isinstance(kind, dict) else "item"
            return path + ("[lost:%s]" if len(x) > len(y) else "[extra:%s]") % kind
        return None
    return None if x == y else path + "=" + (str(x) if len(str(x)) < 24 else "...")


def sig(t, step, clause):
    s, what = first_bad(t)
    ast = t["steps"][0]["a"]["ast"]
    if what == "out":
        d = s["out"]
    elif what == "nocomments":
        d = "nocomments"
    else:
        d = diff(ast, s[what]) or "?"
    return "C02|SheetAST|%s|%s|vector=%s" % (clause, d, s["vector"])


def corrupt(t):
    sp = t["steps"][0]["post"]["spellings"]
    if sp and sp[0]["out"] == "ok" and sp[0]["dom"]:
        sp[0]["dom"] = sp[0]["dom"][:-1]
        return t
    return None


def what(t, step):
    s, w = first_bad(t)
    return "vector %s (%s differs): %r" % (s["vector"], w, s["text"][:160])


def main(tier, seed):
    run = Run("C02", tier, seed)
    rows = matrix.enumerate_rows(run, "SheetAST", "SheetAST_%s.cfg" % tier, heap="8g")
    matrix.judge(run, "SheetASTTrace", "adapters.sheetast", "run_row", rows, sig, corrupt, what=what, chunk=400,
                 nontrivial=lambda t: t["item"]["canonical"],
                 sample_fmt=lambda t: {"canonical": t["item"]["canonical"], "spellings": [s["text"] for s in t["steps"][0]["post"]["spellings"]][:3]})
    run.cov["exhaustive"] = True
    run.cov["rule"] = ("TLC enumerates abstract stylesheets level by level (values: all component lists <=2/3 over 11 component kinds x 3 "
                       "separators; declaration blocks <=2/3 items incl. comments; selector lists; @import/@media/@page/@namespace/"
                       "@charset/@font-face/unknown preludes over their optional parts; statement sequences <=2/3 built by the "
                       "WellOrdered machine); each AST is rendered in 6 spelling vectors (whitespace none/space/newline-tab/CRLF-FF, "
                       "comments between tokens, letter case of at-keywords, property names, units, !important, pseudo and function "
                       "names, quote style, url() form, simple/hex escapes, !important spacing, last semicolon, block closed by EOF) "
                       "and parsed with default options, parseComments=False and validate=False; distinct = distinct ASTs")
    run.assumptions += ["atoms come from small vocabularies; the canonical component texts are fixpoints of cssutils' value serialisation",
                        "selectors are read back through selectorText; comments inside selectors are C16's subject"]
    return run.finish()
