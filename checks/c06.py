"""C06 - serializer preferences do exactly what they document, in every combination."""
import json, os
from harness import matrix, tlc
from harness.report import Run, Machinery

CONTENT = ("keepComments", "keepEmptyRules", "keepUnknownAtRules", "keepUsedNamespaceRulesOnly", "keepAllProperties", "validOnly",
           "importHrefFormat", "resolveVariables")
SPELL = ("defaultAtKeyword", "defaultPropertyName", "defaultPropertyPriority", "minimizeColorHash", "omitLeadingZero", "normalizedVarNames",
         "keepAllProperties")
LAYOUT = ("indent", "indentClosingBrace", "indentSpecificities", "lineSeparator", "listItemSpacer", "paranthesisSpacer", "propertyNameSpacer",
          "selectorCombinatorSpacer", "spacer")
DEFAULT = None


def nondefault(a, fields):
    return ",".join("%s=%s" % (f, a["prefs"][f]) for f in sorted(a["set"]) if f in fields) or "-"


def sig(t, step, clause):
    a, o = t["steps"][0]["a"], t["steps"][0]["post"]
    base = a["base"]
    c = clause.split("|")[0]
    if "|deviation:" in clause:
        return "C06|Prefs|%s" % clause       # a deviation named and delimited by the contract itself (PrefsContract.tla)
    if c == "OutputIsProduced":
        return "C06|Prefs|%s|%s|%s|%s" % (clause, o["out"] if o["out"] != "ok" else o["freeout"], base, nondefault(a, CONTENT + SPELL))
    if c == "OutputIsWellFormedCss":
        return "C06|Prefs|%s|%s|%s|%s" % (clause, o["reparse"], base, nondefault(a, CONTENT + LAYOUT))
    if c == "ReparseIsDomAfterDocumentedEffects":
        return "C06|Prefs|%s|%s|%s" % (clause, base, nondefault(a, CONTENT))
    if c == "SpellingFollowsPreference":
        return "C06|Prefs|%s|%s|%s" % (clause, base, nondefault(a, SPELL))
    if c == "LastSemicolonFollowsPreference":
        return "C06|Prefs|%s|%s|%s" % (clause, base, nondefault(a, CONTENT + ("omitLastSemicolon",)))
    if c == "LayoutPreferencesChangeWhitespaceOnly":
        return "C06|Prefs|%s|%s|%s" % (clause, base, nondefault(a, LAYOUT))
    return "C06|Prefs|%s|%s|%s" % (clause, base, nondefault(a, CONTENT + SPELL + LAYOUT))


def corrupt(t):
    o = t["steps"][0]["post"]
    if o["out"] == "ok" and o["reparse"] == "ok" and o["dom"]:
        o["dom"] = o["dom"][:-1]
        return t
    return None


def what(t, step):
    a = t["steps"][0]["a"]
    return "base %s, %s %s on vector %s: output %r" % (a["base"], a["assignment"], {f: a["prefs"][f] for f in a["set"]}, a["vector"], a["text"][:200])


def file_rows(rows, tier, seed):
    """statement slices of the sheets shipped with the repository x the assignments TLC enumerated that need no knowledge the
    contract lacks for arbitrary sheets (validity table, selector/namespace table, literal keywords)"""
    import glob, random, sys
    sys.path.insert(0, __import__("os").environ.get("VERIF_REPO", "/repo"))
    from adapters import sheetast, prefs as ap
    ap.init()
    rng = random.Random(seed)
    safe = [r for r in rows if r["base"] == "comments" and not r["prefs"]["validOnly"] and not r["prefs"]["keepUsedNamespaceRulesOnly"]
            and r["prefs"]["defaultAtKeyword"] and r["prefs"]["defaultPropertyPriority"] and r["prefs"]["normalizedVarNames"]
            and r["assignment"] != "pair"]
    slices = []
    for path in sorted(glob.glob(__import__("os").environ.get("VERIF_REPO", "/repo") + "/sheets/*.css")):
        try:
            text = open(path, "rb").read().decode("utf-8")
            ap.neutral()
            sheet = sheetast.parse(text)
        except Exception:
            continue
        texts = [x.cssText for x in sheet.cssRules]
        texts = [t for t in texts if t]
        for i in range(0, len(texts), 6):
            sl = "\n".join(texts[i:i + 6])
            if "var(" in sl or "@variables" in sl or "|" in sl or "@namespace" in sl or len(sl) > 4000:
                continue
            slices.append((path.rsplit("/", 1)[-1], i, sl))
    rng.shuffle(slices)
    slices = slices[:40 if tier == "quick" else 400]
    out = []
    for name, i, sl in slices:
        for a in rng.sample(safe, min(len(safe), 8 if tier == "quick" else 24)):
            out.append(dict(a, base="file:%s#%d" % (name, i), ast=None, text=sl))
    return out, len(slices)


def main(tier, seed):
    run = Run("C06", tier, seed)
    cfg = os.path.join(run.work, "Prefs_%s.cfg" % tier)
    with open(os.path.join(tlc.SPEC, "Prefs_%s.cfg" % tier)) as f:
        text = f.read().replace("Seed = 1", "Seed = %d" % (seed % 100))
    with open(cfg, "w") as f:
        f.write(text)
    rows = matrix.enumerate_rows(run, "Prefs", cfg, heap="8g")
    kinds = {}
    for r in rows:
        kinds[r["assignment"]] = kinds.get(r["assignment"], 0) + 1
    frows, nslices = file_rows(rows, tier, seed)
    run.notes["file_slices"] = nslices
    traces = matrix.judge(run, "PrefsTrace", "adapters.prefs", "run_row", rows + frows, sig, corrupt, what=what, chunk=300,
                 nontrivial=lambda t: t["item"]["text"] and json.dumps([t["item"]["src"], t["item"]["prefs"]], sort_keys=True),
                 sample_fmt=lambda t: {"base": t["item"]["base"], "set": {f: t["item"]["prefs"][f] for f in t["item"]["set"]}, "vector": t["item"]["vector"],
                                       "output": t["item"]["text"][:300]})
    run.notes["rows_by_assignment_kind"] = kinds
    # how often each clause had something to decide (vacuity guard)
    acted, spelled, literal, ends, layout = 0, {}, {}, {}, 0
    for t in traces:
        o, a = t["steps"][0]["post"], t["steps"][0]["a"]
        acted += o["dom"] != o["srcdom"]
        layout += a["text"] != "" and any(f in LAYOUT for f in a["set"])
        for it in o["spelled"]:
            spelled[it["kind"]] = spelled.get(it["kind"], 0) + 1
            if it["seen"] != it["on"]:
                literal[it["kind"]] = literal.get(it["kind"], 0) + 1
        for b in o["blocks"]:
            ends[b] = ends.get(b, 0) + 1
    run.notes["clause_exercise"] = {"rows_where_the_effect_changed_the_dom": acted, "rows_with_layout_preferences_changed": layout,
                                    "spelled_items_by_kind": spelled, "spelled_items_seen_in_literal_form": literal, "declaration_block_ends": ends}
    for k in ("atkeyword", "propname", "priority", "hash", "number", "varname"):
        if not literal.get(k):
            raise Machinery("no %s was ever seen in its literal form: the spelling clause is vacuous" % k)
    if not acted or not layout or not ends.get("semi") or not ends.get("decl"):
        raise Machinery("a clause of C06 was never exercised: %s" % run.notes["clause_exercise"])
    run.cov["exhaustive"] = True
    run.cov["rule"] = ("TLC enumerates (base sheet, assignment) rows: 17 base sheets built so that every preference acts on something "
                       "(comments in every position, empty rules of every kind, unknown at-rules, used/unused namespaces at every depth, "
                       "duplicate and !important declarations, invalid declarations in style/@page/margin/@font-face context, @import "
                       "forms, @variables, spelled items, layout-sensitive selectors and values)%s x {default, every preference alone with "
                       "every non-default value, all pairs of preferences with all non-default values, the minified preset, the preset "
                       "with one override, seeded full assignments}; each row is rendered in one of 6 spelling vectors (chosen by row "
                       "number), serialised under the assignment, reparsed, re-serialised with the layout preferences reset, and with "
                       "defaults restored" % (" + the C02 level sheets L2/L4" if tier == "thorough" else ""))
    run.assumptions += ["lineNumbers is not a CSS serialisation and is left out; 24 preferences remain",
                        "layout strings are drawn from '', ' ', '  ', 4 spaces, TAB, LF, CRLF",
                        "a namespace rule counts as used when a rule of the serialised sheet uses its URI, at any nesting depth",
                        "the DOM is read back (projected) under default preferences with resolveVariables off and keepEmptyRules on",
                        "the non-whitespace token sequence is taken with cssutils' own tokenizer (C05 is its contract)"]
    return run.finish()
