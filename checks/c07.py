"""C07 - CSS codec: round trip, CSS 2.1 encoding detection, chunking invariance."""
import json
from harness import matrix
from harness.report import Run


def sig(t, step, clause):
    a = t["item"]
    if a["kind"] == "detect":
        return "C07|Codec|%s|detect|final=%s|%s" % (clause, a["final"], " ".join(a["bs"]))
    if a["kind"] == "charset":
        return "C07|Codec|%s|charset|unicode=%s|final=%s" % (clause, a["unicode"], a["final"])
    if a["kind"] == "roundtrip":
        return "C07|Codec|%s|roundtrip|%s|%s|cs=%s|body=%s" % (clause, a["enc"], a["mode"], a["cs"], a["body"])
    if a["text"] == "rulecut" and a["cls"] in ("reader", "writer") and clause == "ChunkingInvariant":
        return "C07|Codec|%s|chunk|%s|any-encoding|input-ends-inside-charset-rule" % (clause, a["cls"])
    if a["enc"] == "iso-2022-jp" and a["cls"] in ("reader", "writer") and a["text"] in ("plain", "rule"):
        # stateful multi-byte encoding through the stream classes (they decode / encode every chunk statelessly)
        return "C07|Codec|%s|chunk|%s|stateful-encoding" % (clause, a["cls"])
    return "C07|Codec|%s|chunk|%s|%s|%s" % (clause, a["cls"], a["enc"], a["text"])


def corrupt(t):
    a = t["item"]
    if a["kind"] == "chunk" and t["steps"][0]["post"].get("concat") and not t["steps"][0]["post"]["oneshot_error"]:
        t["steps"][0]["post"]["concat"] = t["steps"][0]["post"]["concat"][:-1]
        return t
    return None


def main(tier, seed):
    run = Run("C07", tier, seed)
    rows = matrix.enumerate_rows(run, "Codec", "Codec_%s.cfg" % tier)
    matrix.judge(run, "CodecTrace", "adapters.codec_", "run_row", rows, sig, corrupt, chunk=4000,
                 what=lambda t, s: json.dumps({k: v for k, v in t["item"].items() if k != "bytes"}),
                 nontrivial=lambda t: json.dumps(t["item"], sort_keys=True))
    run.cov["exhaustive"] = True
    run.cov["rule"] = ("TLC enumerates (a) every sequence of 0..4 byte classes (12 classes) x final/non-final for the detector, and both "
                       "detectors on '@charset \"name\";' cut at every length; (b) text shape x 12 encodings x charset rule "
                       "(none/same/other) x encoding given/auto-detected; (c) incremental decoder/encoder and stream reader/writer x "
                       "11 encodings x 4 texts x every cut set of <=1 (quick) / <=2 (thorough) cuts within the first 26/30 units plus "
                       "one-unit-at-a-time; every row is a distinct case")
    run.assumptions += ["byte classes are instantiated with 1-4 concrete bytes each; rows whose text the encoding cannot represent, and "
                        "auto-detection without BOM or @charset, are outside the quantifier and skipped"]
    return run.finish()
