"""C19 - URL enumeration/replacement exact; flattening @imports preserves meaning."""
import json, os, random
from harness import matrix, tlc
from harness.report import Run, Machinery


def edge_shape(world):
    """abstract shape of the import tree: per edge (media?, reference form class, availability), sorted"""
    out = []
    locs = {}
    for fid, f in world["files"].items():
        locs[(f["loc"]["host"], tuple(f["loc"]["path"]))] = fid
    for fid, f in sorted(world["files"].items()):
        for s in f["stmts"]:
            if s["k"] == "import":
                r = s["ref"]
                form = "abs" if r["scheme"] else "schemerel" if r["host"] else "root" if r["rooted"] else "dot" if r["segs"][:1] == ["."] else "rel"
                out.append("%s>%s:%s" % (fid, form, "media" if s["media"] else "all"))
    return ",".join(out)


def sig(t, step, clause):
    st = t["steps"][step - 1]
    o, w = st["post"], st["a"]["world"]
    if "|deviation:" in clause:
        return "C19|%s|%s" % ("Urls" if o["kind"] == "urls" else "Flatten", clause)     # named and delimited by ImportsContract.tla
    if o["kind"] == "urls":
        kinds = sorted({s["k"] for s in w["files"][o["file"]]["stmts"]})
        return "C19|Urls|%s|file=%s|%s" % (clause, o["file"], o["out"] if o["out"] != "ok" else "+".join(kinds))
    c = clause.split("|")[0]
    if c == "FlatteningCompletes":
        return "C19|Flatten|%s|%s|%s" % (clause, o["out"], edge_shape(w))
    return "C19|Flatten|%s|%s|%s" % (clause, "csscombine" if o.get("mode") == "csscombine" else "resolveImports", edge_shape(w))


def corrupt(t):
    for st in t["steps"]:
        o = st["post"]
        if o["kind"] == "flat" and o["out"] == "ok" and o["flat"]:
            for s in o["flat"]:
                if s["k"] == "style" and s["urls"] and not s["urls"][0]["rooted"] and not s["urls"][0]["scheme"]:
                    s["urls"][0]["segs"] = ["moved"] + s["urls"][0]["segs"]
                    return t
    return None


def what(t, step):
    st = t["steps"][step - 1]
    o = st["post"]
    return "%s on world with root %r -> %r" % (st["a"]["what"], t["item"]["root"][:200], (o.get("text") or str(o.get("urls")))[:300])


def main(tier, seed):
    run = Run("C19", tier, seed)
    rows = matrix.enumerate_rows(run, "Imports", "Imports_%s.cfg" % tier, workers=16, heap="8g")
    rng = random.Random(seed)
    # deeper trees: simulated behaviours of the same machine (every state of a behaviour is a world)
    sim = tlc.run("Imports", "Imports_deep.cfg", run.work + "/sim", workers=1, heap="4g", timeout=900,
                  simulate="num=%d" % (150 if tier == "quick" else 1500), args=["-depth", "7", "-seed", str(seed)])
    if sim.errors or sim.violated:
        raise Machinery("TLC simulation Imports_deep failed: %s %s\n%s" % (sim.errors, sim.violated, sim.out[-2000:]))
    deep, seen = [], set()
    for r in tlc.json_lines(sim, "ROW"):
        k = json.dumps(r, sort_keys=True)
        if k not in seen and r.get("nedges", 0) >= 3:
            seen.add(k)
            deep.append(r)
    run.notes["deep_worlds_from_simulation"] = len(deep)
    if tier == "quick":
        rows = [r for i, r in enumerate(rows) if r["nedges"] <= 1 or (i + seed) % 7 == 0]
    items = rows + deep
    traces = matrix.judge(run, "ImportsTrace", "adapters.imports_", "run_row", items, sig, corrupt, what=what, chunk=250,
                          nontrivial=lambda t: t["item"]["root"] and json.dumps([t["item"], t["steps"][0]["a"]["what"], t["steps"][1]["a"]["what"]]),
                          sample_fmt=lambda t: {"root": t["item"]["root"], "flat": t["steps"][1]["post"].get("text", "")[:400]})
    # csscombine on real files (scratch directory below the work directory, removed per case)
    comb = [dict(r, work=run.work) for i, r in enumerate(items) if (i + seed) % (6 if tier == "quick" else 2) == 0]
    ctraces = judge_combine(run, comb)
    modes = {}
    kept = wrapped = 0
    for t in traces:
        o = t["steps"][1]["post"]
        modes[o["mode"]] = modes.get(o["mode"], 0) + 1
        kept += any(s["k"] == "import" for s in o["flat"])
        wrapped += any(s["k"] == "media" for s in o["flat"])
    run.notes["flatten_modes"] = modes
    run.notes["worlds_with_a_kept_import"] = kept
    run.notes["worlds_with_a_media_wrapper"] = wrapped
    run.notes["csscombine_cases"] = len(ctraces)
    if not kept or not wrapped:
        raise Machinery("no world exercised %s" % ("a kept @import" if not kept else "media wrapping"))
    run.cov["exhaustive"] = tier != "quick"
    run.cov["rule"] = ("TLC explores the import-tree machine over 10 files (same / child / grand-child / parent / sibling directory, "
                       "root-relative, a second host reached by absolute and scheme-relative references, missing targets; bodies with "
                       "url() in style, @media, @font-face, @page+margin and a @namespace): every state with <=%s edges x reference form "
                       "(relative, ./relative, root-relative, absolute, scheme-relative) x media on the edge, plus simulated "
                       "behaviours up to 6 edges; on every world: getUrls / replaceUrls on one file's sheet, resolveImports read from "
                       "the DOM, from its text, from its minified text, or with iso-8859-1 targets (by row number); csscombine on real "
                       "files for a slice" % ("2 (a seventh of the 2-edge worlds per quick run)" if tier == "quick" else "2"))
    run.assumptions += ["RFC 3986 resolution is specified in the contract (NormSegs/Resolve); URL strings are split by urllib.parse.urlsplit",
                        "a group may be wrapped in @media only if it consists of style rules (and comments); otherwise the @import is kept",
                        "cyclic imports are C01's subject; the machine adds edges along a fixed order of files",
                        "csscombine cannot be given a fetcher: files on the second host and root-relative targets are unavailable there"]
    return run.finish()


def judge_combine(run, comb):
    return matrix.judge(run, "ImportsTrace", "adapters.imports_", "run_combine", comb, sig, corrupt_combine, what=what, chunk=250,
                        nontrivial=lambda t: json.dumps([t["item"], t["steps"][0]["a"]["what"]]))


def corrupt_combine(t):
    o = t["steps"][0]["post"]
    if o["out"] == "ok" and o["flat"]:
        for s in o["flat"]:
            if s["k"] == "style" and s["urls"] and not s["urls"][0]["rooted"] and not s["urls"][0]["scheme"]:
                s["urls"][0]["segs"] = ["moved"] + s["urls"][0]["segs"]
                return t
    return None
