"""C10 - declaration blocks obey the ordered-multimap-with-cascade model."""
import json
from harness import history


def sig(trace, step, clause):
    a = trace["steps"][step - 1]["a"] if step else {"op": "init"}
    return "C10|DeclBlock|%s|%s" % (clause, a["op"])


def corrupt(t):
    # drop one entry from the observed list after the last step that left a non-empty list
    for s in reversed(t["steps"]):
        if s["post"]["list"]:
            s["post"]["list"] = s["post"]["list"][:-1]
            return t
    return None


def nontrivial(pre, s):
    changed = pre["list"] != s["post"]["list"]
    if changed or s["out"] != "ok":
        return json.dumps([pre["list"], s["a"]], sort_keys=True)
    return None


def sig_var(trace, step, clause):
    import re
    a = trace["steps"][step - 1]["a"] if step else {"op": "init"}
    post = trace["steps"][step - 1]["post"] if step else trace["init"]
    if clause == "TextListsExactlyTheVariables" and post["reparsed"] and post["reparsed"][0]["name"] == "#unparsable" \
            and re.search(r";\s*/\*[^*]*\*/\s*$", post["text"]):
        # the serialisation ends '...; /*comment*/', which the block's own parser does not accept
        return "C10|VarBlock|%s|unparsable:comment-after-last-semicolon" % clause
    return "C10|VarBlock|%s|%s" % (clause, a["op"])


def corrupt_var(t):
    for s in reversed(t["steps"]):
        if s["post"]["list"]:
            s["post"]["reparsed"] = s["post"]["reparsed"][:-1]
            return t
    return None


def main(tier, seed):
    q = tier == "quick"
    run = history.check(
        "C10", tier, seed, machine="VarBlock", mc_cfg="VarBlock_%s.cfg" % tier, gen_cfg="VarBlock_gen_%s.cfg" % tier,
        trace_module="VarBlockTrace", adapter="adapters.varblock", sig=sig_var, corrupt=corrupt_var,
        tour_cap=8000 if q else 100000, n_walks=200 if q else 3000, walk_len=20 if q else 40, nontrivial=nontrivial,
        variants=[{}, {"comments": True}], finish=False)
    return history.check(
        "C10", tier, seed, run=run, machine="DeclBlock", mc_cfg="DeclBlock_%s.cfg" % tier, gen_cfg="DeclBlock_gen_%s.cfg" % tier,
        trace_module="DeclBlockTrace", adapter="adapters.declblock", sig=sig, corrupt=corrupt,
        tour_cap=20000 if q else 600000, n_walks=200 if q else 5000, walk_len=25 if q else 40, nontrivial=nontrivial,
        variants=[{}, {}, {"comments": True}],
        rule="transition tour: every reachable abstract list (TLC BFS) x every action of the alphabet, plus seeded random "
             "walks; a step is non-trivial if it changed the list or was rejected; distinct = distinct (pre-list, action)",
        assumptions=["values and names come from small alphabets; character-level normalisation is C05/C03's job",
                     "the projection reads public accessors only (getProperties(all=True), keys, item, in, ...)"])
