"""C10 - declaration blocks obey the ordered-multimap-with-cascade model."""
import json
from harness import history


def sig(trace, step, clause):
    a = trace["steps"][step - 1]["a"] if step else {"op": "init"}
    return "C10|DeclBlock|%s|%s" % (clause, a["op"])


def corrupt(t):
    # drop one entry from the observed list after the last step that left a non-empty list
    for s in reversed(t["steps"]):
        if s["post"]["list"]:
            s["post"]["list"] = s["post"]["list"][:-1]
            return t
    return None


def nontrivial(pre, s):
    changed = pre["list"] != s["post"]["list"]
    if changed or s["out"] != "ok":
        return json.dumps([pre["list"], s["a"]], sort_keys=True)
    return None


def sig_var(trace, step, clause):
    import re
    a = trace["steps"][step - 1]["a"] if step else {"op": "init"}
    post = trace["steps"][step - 1]["post"] if step else trace["init"]
    if clause == "TextListsExactlyTheVariables" and post["reparsed"] and post["reparsed"][0]["name"] == "#unparsable" \
            and re.search(r";\s*/\*[^*]*\*/\s*$", post["text"]):
        # the serialisation ends '...; /*comment*/', which the block's own parser does not accept
        return "C10|VarBlock|%s|unparsable:comment-after-last-semicolon" % clause
    return "C10|VarBlock|%s|%s" % (clause, a["op"])


def corrupt_var(t):
    for s in reversed(t["steps"]):
        if s["post"]["list"]:
            s["post"]["reparsed"] = s["post"]["reparsed"][:-1]
            return t
    return None


def domname_rows(run):
    """every property name of the repository's profiles -> rows with the DOM name computed by TLC (spec/DomNames.tla)"""
    import os, sys
    from harness import tlc, matrix
    from harness.report import Machinery
    sys.path.insert(0, __import__("os").environ.get("VERIF_REPO", "/repo"))
    import cssutils.profiles
    names = sorted({n for g in cssutils.profiles.properties for n in cssutils.profiles.properties[g]})
    path = os.path.join(run.work, "names.ndjson")
    with open(path, "w") as f:
        for n in names:
            f.write(json.dumps({"css": [ord(c) for c in n]}) + "\n")
    res = tlc.run("DomNames", "DomNames.cfg", run.work + "/domnames", workers=1, env={"NAMES_FILE": path})
    if not res.ok:
        raise Machinery("TLC DomNames failed: %s %s\n%s" % (res.errors, res.violated, res.out[-1500:]))
    run.add_design(res, "DomNames:DomNames.cfg")
    rows = tlc.json_lines(res, "ROW")
    if len(rows) != len(names):
        raise Machinery("DomNames enumerated %d rows for %d names" % (len(rows), len(names)))

    def corrupt(t):
        t["steps"][0]["post"]["byattr"] = "x"
        return t
    matrix.judge(run, "DomNamesTrace", "adapters.declblock", "run_domname", rows,
                 lambda t, s, c: "C10|DomNames|%s|%s" % (c, t["item"]["name"]), corrupt,
                 what=lambda t, s: "property %s, attribute %s: %s" % (t["item"]["name"], t["item"]["attr"], json.dumps(t["steps"][0]["post"])[:200]),
                 nontrivial=lambda t: t["item"]["name"])
    run.notes["dom_names"] = len(rows)


def main(tier, seed):
    q = tier == "quick"
    from harness.report import Run
    run0 = Run("C10", tier, seed)
    domname_rows(run0)
    run = history.check(
        "C10", tier, seed, run=run0, machine="VarBlock", mc_cfg="VarBlock_%s.cfg" % tier, gen_cfg="VarBlock_gen_%s.cfg" % tier,
        trace_module="VarBlockTrace", adapter="adapters.varblock", sig=sig_var, corrupt=corrupt_var,
        tour_cap=8000 if q else 100000, n_walks=200 if q else 3000, walk_len=20 if q else 40, nontrivial=nontrivial,
        variants=[{}, {"comments": True}], finish=False)
    return history.check(
        "C10", tier, seed, run=run, machine="DeclBlock", mc_cfg="DeclBlock_%s.cfg" % tier, gen_cfg="DeclBlock_gen_%s.cfg" % tier,
        trace_module="DeclBlockTrace", adapter="adapters.declblock", sig=sig, corrupt=corrupt,
        tour_cap=20000 if q else 200000, n_walks=200 if q else 3000, walk_len=25 if q else 40, nontrivial=nontrivial,
        variants=[{}, {"asobj": True}, {"comments": True}],
        rule="transition tour: every reachable abstract list (TLC BFS) x every action of the alphabet, plus seeded random "
             "walks; a step is non-trivial if it changed the list or was rejected; distinct = distinct (pre-list, action)",
        assumptions=["values and names come from small alphabets; character-level normalisation is C05/C03's job",
                     "the projection reads public accessors only (getProperties(all=True), keys, item, in, ...)"])
