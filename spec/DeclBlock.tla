---------------------------- MODULE DeclBlock ----------------------------
(* The machine explored by TLC: histories of API calls on one declaration block,   *)
(* with the reference semantics of DeclBlockContract.  hist is an observation      *)
(* variable (hidden by VIEW) that yields one shortest history per reachable list.  *)
EXTENDS DeclBlockContract

CONSTANTS Lits,        \* literal spellings of property names used by the generator
          Values,      \* well-formed values (their serialisation is the identity)
          Prios,       \* accepted spellings of a priority
          MaxLen,      \* bound on the list length (state constraint)
          MaxHist      \* bound on the history length

VARIABLES list, hist
CONSTANT Emit   \* TRUE in the behaviour-generation configs: print every explored transition
vars == <<list, hist>>

SetArgs   == Lits \X (Values \cup {BadValue}) \X (Prios \cup {BadPrio})
AttrLits  == Lits \cap {"color", "left", "top"}     \* the DOM attribute name exists for the lower-case CSS name only
TextDecls == {<<>>} \cup {<<[lit |-> l, value |-> v, prio |-> p]>> : l \in Lits, v \in {"red", BadValue}, p \in {"", "!important"}}
                    \cup {<<[lit |-> "color", value |-> "red", prio |-> p], [lit |-> l, value |-> v, prio |-> ""]>> :
                              p \in {"", "!important"}, l \in {"COLOR", "left"}, v \in {"blue", BadValue}}
Alphabet ==
    {[op |-> o, lit |-> x[1], value |-> x[2], prio |-> x[3]] : o \in {"set", "setitem", "add"}, x \in SetArgs}
    \cup {[op |-> "attrset", lit |-> l, value |-> v, prio |-> ""] : l \in AttrLits, v \in Values \cup {BadValue}}
    \cup {[op |-> o, lit |-> l] : o \in {"remove", "delitem", "setempty"}, l \in Lits}
    \cup {[op |-> "attrdel", lit |-> l] : l \in AttrLits}
    \cup {[op |-> "settext", decls |-> ds] : ds \in TextDecls}

Act(a) == /\ Len(hist) < MaxHist
          /\ list' = Ref(list, a).list
          /\ hist' = Append(hist, a)
          /\ (Emit => PrintT(<<"HIST", ToJson([h |-> Append(hist, a), s |-> list])>>))
Ops(S) == {a \in Alphabet : a.op \in S}

SetProperty    == \E a \in Ops({"set"}) : Act(a)
SetItem        == \E a \in Ops({"setitem"}) : Act(a)
AttrSet        == \E a \in Ops({"attrset"}) : Act(a)
AddDuplicate   == \E a \in Ops({"add"}) : Act(a)
RemoveProperty == \E a \in Ops({"remove"}) : Act(a)
DelItem        == \E a \in Ops({"delitem"}) : Act(a)
AttrDel        == \E a \in Ops({"attrdel"}) : Act(a)
SetEmpty       == \E a \in Ops({"setempty"}) : Act(a)
SetText        == \E a \in Ops({"settext"}) : Act(a)

Init == list = <<>> /\ hist = <<>>
Next == SetProperty \/ SetItem \/ AttrSet \/ AddDuplicate \/ RemoveProperty \/ DelItem \/ AttrDel \/ SetEmpty \/ SetText
Spec == Init /\ [][Next]_vars

Bounded == Len(list) <= MaxLen
View == list

\* ---- design-level properties of the contract (checked exhaustively by TLC) ----------------
TypeOK == \A i \in 1..Len(list) : list[i].name \in {Norm(x) : x \in Lits} /\ list[i].prio \in {"", "important"}
\* the reference semantics satisfies the contract it is judged by
RefAllowed == [][\A a \in {hist'[Len(hist')]} : Allowed(list, a, Ref(list, a))]_vars
\* after a well-formed set the effective value/priority of the name are the ones given   (cascade rule)
SetIsEffective ==
    [][LET a == hist'[Len(hist')] IN
        (a.op \in {"set", "setitem", "attrset"} /\ ~IsBad(a)) =>
            \* (with duplicates, updating an !important entry to a normal one can hand the name to a later entry)
            /\ (Cardinality(Idx(list, Norm(a.lit))) <= 1 \/ PrioNorm(a.prio) # "" =>
                  /\ EffValue(list', Norm(a.lit)) = a.value
                  /\ EffPrio(list', Norm(a.lit)) = PrioNorm(a.prio))
            /\ \E i \in Idx(list', Norm(a.lit)) : list'[i].value = a.value /\ list'[i].prio = PrioNorm(a.prio)
            /\ Len(list') = (IF Eff(list, Norm(a.lit)) = 0 THEN Len(list) + 1 ELSE Len(list))]_vars
\* removal deletes every entry of the name and nothing else
RemoveExact ==
    [][LET a == hist'[Len(hist')] IN
        a.op \in {"remove", "delitem", "attrdel", "setempty"} =>
            /\ Eff(list', Norm(a.lit)) = 0
            /\ NamesOf(list') = NamesOf(list) \ {Norm(a.lit)}]_vars
\* a rejected call changes nothing  (C11)
RejectedUnchanged == [][Ref(list, hist'[Len(hist')]).out \in DOMExc => list' = list]_vars
\* an important entry is never shadowed by a later normal one
ImportantWins == \A n \in NamesOf(list) :
                    (\E i \in Idx(list, n) : list[i].prio # "") => list[Eff(list, n)].prio # ""

\* ---- behaviour generation: one shortest history per reachable list --------------------------
EmitWalk == Len(hist) = MaxHist => PrintT(<<"WALK", ToJson(hist)>>)
EmitAlphabet == hist = <<>> => PrintT(<<"ALPHABET", ToJson(Alphabet)>>)
=============================================================================
