---------------------------- MODULE MutatorsTrace ----------------------------
EXTENDS MutatorsContract, IOUtils
VARIABLES tid, l, bad
Traces == ndJsonDeserialize(IOEnv.TRACE_FILE)
StepClause(pre, ev) == StepFailing(pre, ev.a, ev.out, ev.post)
StateClause(o) == "ok"
INSTANCE Monitor
=============================================================================
