---------------------------- MODULE EncutilsTrace ----------------------------
EXTENDS EncutilsContract, IOUtils
VARIABLES tid, l, bad
Traces == ndJsonDeserialize(IOEnv.TRACE_FILE)
StepClause(pre, ev) == CASE ev.a.kind = "info" -> RowFailing(ev.a, ev.post)
                         [] ev.a.kind = "sniff" -> SniffFailing(ev.a, ev.post)
                         [] ev.a.kind = "mediatype" -> MediaTypeFailing(ev.a, ev.post)
StateClause(o) == "ok"
INSTANCE Monitor
=============================================================================
