---------------------------- MODULE DomNamesTrace ----------------------------
EXTENDS DomNamesContract, Json, IOUtils
VARIABLES tid, l, bad
Traces == ndJsonDeserialize(IOEnv.TRACE_FILE)
StepClause(pre, ev) == DomNameFailing(ev.a, ev.post)
StateClause(o) == "ok"
INSTANCE Monitor
=============================================================================
