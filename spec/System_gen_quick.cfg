SPECIFICATION Spec
CONSTANTS
  Emit = TRUE
  Lits = {"color", "COLOR", "left"}
  Values = {"red"}
  Prios = {"", "!important"}
  Queries = {"print", "PRINT"}
  Sels = {"a>b", "a , b"}
  MaxLen = 1
  MaxHist = 3
CONSTRAINT Bounded
VIEW View
INVARIANT EmitAlphabet
