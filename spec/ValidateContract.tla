-------------------------- MODULE ValidateContract --------------------------
(***************************************************************************)
(* C13: the validation verdict depends only on name, value and profiles;   *)
(* it only annotates.  The tables below are transcribed from the CSS 2.1   *)
(* property index (not from cssutils' profiles.py): for properties whose   *)
(* grammar is a keyword list, or a single length / percentage / number /   *)
(* integer / colour / URI (plus keywords), which abstract value kinds are  *)
(* accepted.  Every property also accepts 'inherit'.                       *)
(***************************************************************************)
EXTENDS Naturals, Sequences, FiniteSets, TLC, Json

BorderStyles == {"none", "hidden", "dotted", "dashed", "solid", "double", "groove", "ridge", "inset", "outset"}
Keywords == [
  display |-> {"inline", "block", "list-item", "run-in", "inline-block", "table", "inline-table", "table-row-group", "table-header-group",
               "table-footer-group", "table-row", "table-column-group", "table-column", "table-cell", "table-caption", "none"},
  position |-> {"static", "relative", "absolute", "fixed"},
  float |-> {"left", "right", "none"},
  clear |-> {"none", "left", "right", "both"},
  visibility |-> {"visible", "hidden", "collapse"},
  overflow |-> {"visible", "hidden", "scroll", "auto"},
  text_align |-> {"left", "right", "center", "justify"},
  text_transform |-> {"capitalize", "uppercase", "lowercase", "none"},
  white_space |-> {"normal", "pre", "nowrap", "pre-wrap", "pre-line"},
  font_style |-> {"normal", "italic", "oblique"},
  font_variant |-> {"normal", "small-caps"},
  border_collapse |-> {"collapse", "separate"},
  caption_side |-> {"top", "bottom"},
  empty_cells |-> {"show", "hide"},
  table_layout |-> {"auto", "fixed"},
  direction |-> {"ltr", "rtl"},
  unicode_bidi |-> {"normal", "embed", "bidi-override"},
  list_style_position |-> {"inside", "outside"},
  list_style_type |-> {"disc", "circle", "square", "decimal", "decimal-leading-zero", "lower-roman", "upper-roman", "lower-greek", "lower-latin",
                       "upper-latin", "armenian", "georgian", "lower-alpha", "upper-alpha", "none"},
  page_break_after |-> {"auto", "always", "avoid", "left", "right"},
  page_break_before |-> {"auto", "always", "avoid", "left", "right"},
  page_break_inside |-> {"avoid", "auto"},
  border_top_style |-> BorderStyles, border_left_style |-> BorderStyles, border_bottom_style |-> BorderStyles, border_right_style |-> BorderStyles,
  outline_style |-> BorderStyles \ {"hidden"},
  background_attachment |-> {"scroll", "fixed"},
  background_repeat |-> {"repeat", "repeat-x", "repeat-y", "no-repeat"},
  text_decoration_none |-> {"none"}]
KeywordProps == DOMAIN Keywords \ {"text_decoration_none"}

\* single-type properties: accepted value kinds and extra keywords
Kinds == {"length", "neglength", "percentage", "negpercentage", "number", "integer", "negint", "zero", "hash3", "hash6", "rgbfn", "colorname", "uri", "string",
          "unitless5", "angle", "time", "ident-bogus"}
SingleType == [
  width |-> [kinds |-> {"length", "percentage", "zero"}, kw |-> {"auto"}],
  height |-> [kinds |-> {"length", "percentage", "zero"}, kw |-> {"auto"}],
  min_width |-> [kinds |-> {"length", "percentage", "zero"}, kw |-> {}],
  max_width |-> [kinds |-> {"length", "percentage", "zero"}, kw |-> {"none"}],
  margin_top |-> [kinds |-> {"length", "neglength", "percentage", "negpercentage", "zero"}, kw |-> {"auto"}],
  margin_left |-> [kinds |-> {"length", "neglength", "percentage", "negpercentage", "zero"}, kw |-> {"auto"}],
  padding_top |-> [kinds |-> {"length", "percentage", "zero"}, kw |-> {}],
  top |-> [kinds |-> {"length", "neglength", "percentage", "negpercentage", "zero"}, kw |-> {"auto"}],
  left |-> [kinds |-> {"length", "neglength", "percentage", "negpercentage", "zero"}, kw |-> {"auto"}],
  text_indent |-> [kinds |-> {"length", "neglength", "percentage", "negpercentage", "zero"}, kw |-> {}],
  letter_spacing |-> [kinds |-> {"length", "neglength", "zero"}, kw |-> {"normal"}],
  word_spacing |-> [kinds |-> {"length", "neglength", "zero"}, kw |-> {"normal"}],
  line_height |-> [kinds |-> {"length", "percentage", "number", "integer", "zero", "unitless5"}, kw |-> {"normal"}],
  z_index |-> [kinds |-> {"integer", "negint", "zero", "unitless5"}, kw |-> {"auto"}],
  orphans |-> [kinds |-> {"integer", "zero", "unitless5"}, kw |-> {}],
  color |-> [kinds |-> {"hash3", "hash6", "rgbfn", "colorname"}, kw |-> {}],
  background_color |-> [kinds |-> {"hash3", "hash6", "rgbfn", "colorname"}, kw |-> {"transparent"}],
  border_top_color |-> [kinds |-> {"hash3", "hash6", "rgbfn", "colorname"}, kw |-> {"transparent"}],
  outline_color |-> [kinds |-> {"hash3", "hash6", "rgbfn", "colorname"}, kw |-> {"invert"}],
  border_top_width |-> [kinds |-> {"length", "zero"}, kw |-> {"thin", "medium", "thick"}],
  outline_width |-> [kinds |-> {"length", "zero"}, kw |-> {"thin", "medium", "thick"}],
  background_image |-> [kinds |-> {"uri"}, kw |-> {"none"}],
  list_style_image |-> [kinds |-> {"uri"}, kw |-> {"none"}],
  vertical_align |-> [kinds |-> {"length", "neglength", "percentage", "negpercentage", "zero"},
                      kw |-> {"baseline", "sub", "super", "top", "text-top", "middle", "bottom", "text-bottom"}],
  font_size |-> [kinds |-> {"length", "percentage", "zero"},
                 kw |-> {"xx-small", "x-small", "small", "medium", "large", "x-large", "xx-large", "larger", "smaller"}]]
SingleProps == DOMAIN SingleType

\* the oracle: is value v (a keyword or an abstract value kind) accepted by CSS 2.1 for property p ?
Accepts(p, v) ==
    IF v = "inherit" THEN TRUE
    ELSE IF p \in KeywordProps THEN v \in Keywords[p]
    ELSE IF p \in SingleProps THEN v \in SingleType[p].kinds \cup SingleType[p].kw
    ELSE FALSE
\* where CSS 2.1 prose (not its grammar) restricts a value the verdict is left open: negative values for properties
\* whose grammar is plain <length>/<percentage>
OpenNegative(p, v) == /\ p \in SingleProps /\ v \in {"neglength", "negpercentage", "negint"} /\ v \notin SingleType[p].kinds
                      /\ \/ ("length" \in SingleType[p].kinds /\ v = "neglength")
                         \/ ("percentage" \in SingleType[p].kinds /\ v = "negpercentage")
                         \/ ("integer" \in SingleType[p].kinds /\ v = "negint")
OpenCss3Colour(p, v) == p \in {"color", "border_top_color", "background_color", "outline_color"} /\ v = "transparent"
Open(p, v) == OpenNegative(p, v) \/ OpenCss3Colour(p, v)

TableFailing(r, o) ==
    IF o.out # "ok" THEN "ValidationReturns"
    ELSE IF Open(r.prop, r.value) THEN "ok"
    \* a value of the CSS 2.1 grammar is valid (in whichever profile defines the property); a value outside it is invalid
    \* unless a CSS3 module profile also defines the property (CSS3 may extend the grammar: left open)
    ELSE IF Accepts(r.prop, r.value) /\ ~o.valid THEN "Css21ValueIsValid"
    ELSE IF ~Accepts(r.prop, r.value) /\ o.onlycss2 /\ o.valid THEN "ValueOutsideCss21GrammarIsInvalid"
    ELSE IF o.defined /\ o.valid # o.anyprofile THEN "ValidIffSomeProfileAccepts"
    \* the declaration (constructed, parsed) gets the verdict the registry gives for its name and value
    ELSE IF \E i \in 1..Len(o.decl) : o.decl[i] # o.valid THEN "DeclarationVerdictIsRegistryVerdict"
    ELSE "ok"

\* metamorphic: every variant's verdict equals the base verdict
MetaFailing(r, o) ==
    IF o.out # "ok" THEN "ValidationReturns"
    ELSE IF \E i \in 1..Len(o.spellings) : o.spellings[i] # o.base THEN "VerdictInvariantUnderSpelling"
    ELSE IF o.roundtrip # o.base THEN "VerdictSurvivesRoundTrip"
    ELSE IF \E i \in 1..Len(o.origins) : o.origins[i] # o.base THEN "VerdictIndependentOfOrigin"
    ELSE IF \E i \in 1..Len(o.fontface) : o.fontface[i] # o.fontface[1] THEN "VerdictIndependentOfOriginInFontFace"
    ELSE IF o.rulevalid # o.base \/ o.sheetvalid # o.base THEN "RuleAndSheetValidAreConjunctions"
    \* ... wherever the declaration sits: in a style rule inside @media, among the (otherwise valid) descriptors of an @font-face rule
    ELSE IF o.nested.media_sheet # o.base \/ o.nested.page_sheet # o.base THEN "RuleAndSheetValidAreConjunctions"
    ELSE IF o.nested.ff_others /\ o.nested.ff_sheet # o.nested.ff_decl THEN "RuleAndSheetValidAreConjunctions"
    ELSE IF ~o.nested.ff_dup_conj THEN "RuleAndSheetValidAreConjunctions"           \* ... shadowed declarations included
    ELSE IF ~o.nested.page_margin_conj THEN "RuleAndSheetValidAreConjunctions"      \* ... and those inside the margin boxes of an @page rule
    ELSE IF ~o.nested.restricted_ok THEN "ValidationOnlyAnnotates"                  \* ... also under restricted default profiles, outside a parse
    ELSE IF o.text_validate_on # o.text_validate_off THEN "ValidationOnlyAnnotates"
    ELSE IF o.dom_validate_on # o.dom_validate_off THEN "ValidationOnlyAnnotates"
    ELSE "ok"
UnknownFailing(r, o) == IF o.valid THEN "UnknownNamesNeverValid" ELSE "ok"
=============================================================================
