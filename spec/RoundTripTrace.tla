--------------------------- MODULE RoundTripTrace ---------------------------
EXTENDS RoundTripContract, IOUtils
VARIABLES tid, l, bad
Traces == ndJsonDeserialize(IOEnv.TRACE_FILE)
StepClause(pre, ev) == IF ev.a.kind = "content" THEN ContentFailing(ev.a, ev.post) ELSE RoundTripFailing(ev.post)
StateClause(o) == "ok"
INSTANCE Monitor
=============================================================================
