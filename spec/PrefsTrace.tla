----------------------------- MODULE PrefsTrace -----------------------------
EXTENDS PrefsContract, IOUtils
VARIABLES tid, l, bad
Traces == ndJsonDeserialize(IOEnv.TRACE_FILE)
StepClause(pre, ev) == IF ev.post.effective # ev.a.prefs THEN "AssignmentTakesEffect"
                       ELSE IF PrefsFailing(ev.a, ev.post) # "ok" THEN PrefsFailing(ev.a, ev.post)
                       ELSE IF ev.post.afterdefaults # Default THEN "UseDefaultsResetsEveryPreference" ELSE "ok"
StateClause(o) == "ok"
INSTANCE Monitor
=============================================================================
