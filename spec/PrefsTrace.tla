----------------------------- MODULE PrefsTrace -----------------------------
EXTENDS PrefsContract, IOUtils
VARIABLES tid, l, bad
Traces == ndJsonDeserialize(IOEnv.TRACE_FILE)
StepClause(pre, ev) == IF ev.post.effective # ev.a.prefs THEN "AssignmentTakesEffect" ELSE PrefsFailing(ev.a, ev.post)
StateClause(o) == "ok"
INSTANCE Monitor
=============================================================================
