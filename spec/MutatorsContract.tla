-------------------------- MODULE MutatorsContract --------------------------
(***************************************************************************)
(* C11: a rejected DOM mutation changes nothing.                           *)
(* An observation is the FINGERPRINT of the object operated on, its owning *)
(* rule and its stylesheet before and after one call: the serialisations   *)
(* and the structural lists (rule list, property list, selector list,      *)
(* media list, namespaces) as strings / sequences of strings.              *)
(* Whenever the call ended in a DOM exception the fingerprints must be     *)
(* equal.  An object created read-only must reject every mutator with      *)
(* NoModificationAllowedErr.                                               *)
(***************************************************************************)
EXTENDS Naturals, Sequences, FiniteSets, TLC, Json

DOMExc == {"SyntaxErr", "HierarchyRequestErr", "NamespaceErr", "IndexSizeErr",
           "InvalidModificationErr", "NoModificationAllowedErr", "NotFoundErr",
           "InvalidCharacterErr", "InvalidStateErr", "InvalidAccessErr", "DomstringSizeErr",
           "WrongDocumentErr", "NoDataAllowedErr", "NotSupportedErr", "InuseAttributeErr"}

StepFailing(pre, a, out, post) ==
    IF a.readonly /\ out # "NoModificationAllowedErr" THEN "ReadonlyRejectsEveryMutator"
    ELSE IF out \in DOMExc /\ post.target # pre.target THEN "RejectedTargetUnchanged"
    ELSE IF out \in DOMExc /\ post.owner # pre.owner THEN "RejectedOwnerRuleUnchanged"
    ELSE IF out \in DOMExc /\ post.sheet # pre.sheet THEN "RejectedSheetUnchanged"
    ELSE IF out \in DOMExc /\ post.lists # pre.lists THEN "RejectedStructureUnchanged"
    ELSE "ok"
=============================================================================
