------------------------- MODULE MediaListContract -------------------------
(***************************************************************************)
(* C17 / C11: cssutils.stylesheets.MediaList is a canonical ordered set of *)
(* media queries.  Abstract state: the sequence of canonical query texts   *)
(* (lower-case; the adapter reads them back through iteration).            *)
(*   - a list containing the simple type 'all' collapses to <<"all">>      *)
(*   - the empty list means 'all' (its text is "all")                      *)
(*   - a simple media type is kept once                                    *)
(*   - append of a present simple type moves it to the end; delete removes *)
(*     exactly that type; delete of an absent type / append to 'all' is    *)
(*     rejected; one malformed query rejects the whole assignment          *)
(*   - queries with features pass through untouched (never deduplicated)   *)
(* Regions the property is silent about ('all' mixed with feature queries, *)
(* out-of-range indexes) are not generated.                                *)
(***************************************************************************)
EXTENDS Naturals, Sequences, FiniteSets, TLC, SequencesExt, Json

DOMExc == {"SyntaxErr", "HierarchyRequestErr", "NamespaceErr", "IndexSizeErr",
           "InvalidModificationErr", "NoModificationAllowedErr", "NotFoundErr",
           "InvalidCharacterErr", "InvalidStateErr", "InvalidAccessErr"}

SimpleTypes == {"all", "braille", "handheld", "print", "projection", "speech", "screen", "tty", "tv", "embossed"}
BadQs == {"#bad:dimension", "#bad:dangling-and", "#bad:lone-not", "#bad:two-types", "#bad:open-paren"}   \* malformed queries
IsBadQ(q) == q \in BadQs
\* spelling variants of simple types used by the generator -> canonical (lower-case) form
CanonQ(q) == CASE q = "PRINT" -> "print" [] q = "ALL" -> "all" [] q = "Screen" -> "screen" [] OTHER -> q
Simple(q) == q \in SimpleTypes       \* on canonical texts
TypeOf(q) == IF Simple(q) THEN q ELSE ""

\* ---- canonical form of a sequence of (canonical) queries ---------------------------------
RECURSIVE KeepFirst(_, _)
KeepFirst(qs, acc) == IF qs = <<>> THEN acc
                      ELSE IF Simple(qs[1]) /\ qs[1] \in Range(acc) THEN KeepFirst(Tail(qs), acc)
                      ELSE KeepFirst(Tail(qs), Append(acc, qs[1]))
KeepLast(qs) == Reverse(KeepFirst(Reverse(qs), <<>>))
HasAll(qs) == "all" \in Range(qs)
CanonForms(qs) == IF HasAll(qs) THEN {<<"all">>} ELSE {KeepFirst(qs, <<>>), KeepLast(qs)}
Canonical(l) == /\ \A i, j \in 1..Len(l) : (i # j /\ Simple(l[i])) => l[i] # l[j]
                /\ (HasAll(l) => \A i \in 1..Len(l) : Simple(l[i]) => Len(l) = 1 \/ l[i] = "all")
                /\ (HasAll(l) /\ \A i \in 1..Len(l) : Simple(l[i])) => l = <<"all">>
Meaning(l) == IF l = <<>> THEN <<"all">> ELSE l
Without(l, q) == SelectSeq(l, LAMBDA x : x # q)

\* ---- reference semantics ----------------------------------------------------------------------
Rej(l, e) == [list |-> l, out |-> e]
Ok(l)     == [list |-> l, out |-> "ok"]
MapCanon(qs) == [i \in 1..Len(qs) |-> CanonQ(qs[i])]
RefSetText(l, qs) ==
    IF qs = <<>> \/ Range(qs) \cap BadQs # {} THEN Rej(l, "SyntaxErr")
    ELSE IF HasAll(MapCanon(qs)) THEN Ok(<<"all">>) ELSE Ok(KeepFirst(MapCanon(qs), <<>>))
RefAppend(l, q) ==
    IF IsBadQ(q) THEN Rej(l, "SyntaxErr")
    ELSE IF l = <<"all">> THEN Rej(l, "InvalidModificationErr")
    ELSE IF CanonQ(q) = "all" THEN Ok(<<"all">>)
    ELSE IF Simple(CanonQ(q)) THEN Ok(Append(Without(l, CanonQ(q)), CanonQ(q)))
    ELSE Ok(Append(l, CanonQ(q)))
RefDelete(l, t) ==
    IF Simple(CanonQ(t)) /\ CanonQ(t) \in Range(l) THEN Ok(Without(l, CanonQ(t))) ELSE Rej(l, "NotFoundErr")
RefSetItem(l, i, q) ==
    IF IsBadQ(q) THEN Rej(l, "SyntaxErr")
    ELSE LET r == [l EXCEPT ![i] = CanonQ(q)]
         IN  IF HasAll(r) THEN Ok(<<"all">>) ELSE Ok(KeepFirst(r, <<>>))
Ref(l, a) == CASE a.op = "settext" -> RefSetText(l, a.qs)
               [] a.op = "append"  -> RefAppend(l, a.q)
               [] a.op = "delete"  -> RefDelete(l, a.q)
               [] a.op = "setitem" -> RefSetItem(l, a.i, a.q)

\* ---- contract ---------------------------------------------------------------------------------
Silent(l, a) ==   \* inputs the property does not speak about
    \/ a.op = "setitem" /\ ~(a.i \in 1..Len(l))
    \/ a.op \in {"append", "setitem"} /\ ~IsBadQ(a.q) /\ CanonQ(a.q) = "all" /\ \E i \in 1..Len(l) : ~Simple(l[i])
    \/ a.op = "setitem" /\ ~IsBadQ(a.q) /\ ~Simple(CanonQ(a.q)) /\ HasAll(l)
\* mode = "raise": a rejection is a DOM exception;  mode = "log" (what parseString uses): a rejection is
\* reported to the log only, the call returns and nothing has changed.
FirstFailing(l, a, res, mode) ==
    IF res.out \in DOMExc THEN
        (IF res.list # l THEN "RejectedUnchanged"
         ELSE IF Ref(l, a).out = "ok" /\ ~Silent(l, a) THEN "AcceptsWellformedEdit" ELSE "ok")
    ELSE IF Silent(l, a) THEN "ok"
    ELSE IF res.out # "ok" THEN "UnexpectedOutcome"
    ELSE IF Ref(l, a).out # "ok" THEN
        \* malformed query / append to 'all' / delete of an absent type must be rejected (the statement says so)
        (IF mode = "log" /\ res.list = l THEN "ok" ELSE "MustBeRejected")
    ELSE IF a.op \in {"settext", "setitem"} THEN
        (IF res.list \in CanonForms(IF a.op = "settext" THEN MapCanon(a.qs) ELSE [l EXCEPT ![a.i] = CanonQ(a.q)])
         THEN "ok" ELSE "CanonicalOrderedSet")
    ELSE IF res.list # Ref(l, a).list THEN
        (IF a.op = "append" THEN "AppendMovesToEnd" ELSE "DeleteRemovesExactlyThatType")
    ELSE "ok"

ViewClause(o) ==
    IF ~Canonical(o.list) THEN "CanonicalOrderedSet"
    ELSE IF o.length # Len(o.list) THEN "LengthCountsQueries"
    ELSE IF Len(o.items) # Len(o.list) \/ \E i \in 1..Len(o.list) : Simple(o.list[i]) /\ o.items[i] # o.list[i] THEN "ItemIsMediaType"
    ELSE IF o.itemPast # "none" THEN "ItemPastEndIsNone"
    ELSE IF o.reparsed # Meaning(o.list) THEN "TextReparsesToEqualList"
    ELSE IF o.list = <<>> /\ o.text # "all" THEN "EmptyMeansAll"
    ELSE IF o.owner # "none" /\ o.ownertext # o.text THEN "OwnerRuleShowsSameList"
    ELSE "ok"
=============================================================================
