SPECIFICATION PSpec
CONSTANTS
  MaxComps = 1
  MaxDecls = 2
  MaxStmts = 1
  Full3 = FALSE
  Emit = TRUE
  WithPairs = TRUE
  WithLevels = FALSE
  NRandom = 20
  Seed = 1
INVARIANT TypeOK
INVARIANT Idempotent
INVARIANT DefaultKeepsEverythingButEmpties
INVARIANT LayoutNeutral
INVARIANT OnlyRemoves
INVARIANT MinifiedIsAnAssignment
INVARIANT EmitPrefsRow
