------------------------------ MODULE DomNamesContract ------------------------------
(***************************************************************************)
(* C10, last clause: attribute-style access by DOM (camel-case) name is    *)
(* equivalent to access by the hyphenated CSS name FOR EVERY KNOWN         *)
(* PROPERTY.  The known names are read from the repository at run time     *)
(* (NAMES_FILE, one JSON record per line, names as code point sequences);  *)
(* the DOM name is computed here, by the rule of DOM Level 2 Style: every  *)
(* hyphen followed by a letter is dropped and the letter is capitalised.   *)
(***************************************************************************)
EXTENDS Naturals, Sequences, FiniteSets, TLC
IsLower(c) == c \in 97..122
RECURSIVE ToDom(_)
ToDom(s) == IF s = <<>> THEN <<>>
            ELSE IF Head(s) = 45 /\ Len(s) >= 2 /\ IsLower(s[2]) THEN <<s[2] - 32>> \o ToDom(Tail(Tail(s)))
            ELSE <<Head(s)>> \o ToDom(Tail(s))
RECURSIVE ToCss(_)
ToCss(d) == IF d = <<>> THEN <<>>
            ELSE IF Head(d) \in 65..90 THEN <<45, Head(d) + 32>> \o ToCss(Tail(d)) ELSE <<Head(d)>> \o ToCss(Tail(d))

\* contract: what the adapter observed through the attribute and through the CSS name
DomNameFailing(r, o) ==
    IF ~o.exists THEN "EveryKnownPropertyHasItsDomAttribute"
    ELSE IF o.out # "ok" THEN "AttributeAccessCompletes"
    ELSE IF o.byname # "inherit" \/ o.keys # <<r.css>> THEN "AttributeSetIsSetByCssName"
    ELSE IF o.byattr # "0" THEN "AttributeGetIsGetByCssName"
    ELSE IF o.afterdel # 0 THEN "AttributeDeleteIsRemoveByCssName"
    ELSE "ok"
=============================================================================
