-------------------------- MODULE EncutilsContract --------------------------
(***************************************************************************)
(* C20: encutils.getEncodingInfo reports the document encoding by the      *)
(* documented precedence.  A row of the decision table is                  *)
(*   mt    media-type class of the transport header                        *)
(*         appxml (application/xml) appxmlplus (application/x+xml)         *)
(*         textxml (text/xml) textxmlplus (text/x+xml) html css text other *)
(*   http  transport charset:  "none" | an encoding name                   *)
(*   xml   what the document starts with: "none" | "decl:<enc>" |          *)
(*         "bom:<enc>" (a byte order mark) | "bomdecl:<bomenc>:<enc>"      *)
(*   meta  charset of an HTML <meta http-equiv=Content-Type>: "none" | enc *)
(*   doc   "text" | "bytes"                                                *)
(* Encoding names in the rows are mixed case; every reported name must be  *)
(* lower case.  Where the statement is silent the expectation is "any".    *)
(***************************************************************************)
EXTENDS Naturals, Sequences, FiniteSets, TLC, Json

Lower(e) == CASE e = "ISO-8859-5" -> "iso-8859-5" [] e = "KOI8-R" -> "koi8-r" [] e = "UTF-8" -> "utf-8" [] OTHER -> e
XmlKind(x) == IF x = "none" THEN "none" ELSE IF x \in {"bom:utf-8", "bom:utf_16_le", "bom:utf_16_be"} THEN "bom"
              ELSE IF x \in {"bomdecl:utf-8:ISO-8859-5"} THEN "bom" ELSE "decl"
BomEnc(x) == CASE x \in {"bom:utf-8", "bomdecl:utf-8:ISO-8859-5"} -> "utf-8" [] x = "bom:utf_16_le" -> "utf_16_le" [] x = "bom:utf_16_be" -> "utf_16_be"
DeclEnc(x) == CASE x = "decl:ISO-8859-5" -> "iso-8859-5" [] x = "decl:KOI8-R" -> "koi8-r" [] x = "decl:UTF-8" -> "utf-8"
\* XML sniffing: the BOM's encoding if there is a BOM, else the declared encoding, else "default"
Sniff(x) == IF XmlKind(x) = "bom" THEN BomEnc(x) ELSE IF XmlKind(x) = "decl" THEN DeclEnc(x) ELSE "default"
IsXmlApp(mt) == mt \in {"appxml", "appxmlplus"}
MediaDefault(mt) == CASE mt = "html" -> "iso-8859-1" [] mt = "text" -> "iso-8859-1" [] mt = "css" -> "utf-8"
                      [] mt \in {"textxml", "textxmlplus"} -> "ascii" [] OTHER -> "none"

\* which sources are consulted for which media type
HttpEnc(r) == Lower(r.http)
XmlEnc(r)  == IF IsXmlApp(r.mt) THEN (IF Sniff(r.xml) = "default" THEN "utf-8" ELSE Sniff(r.xml))
              ELSE IF r.mt = "html" THEN (IF Sniff(r.xml) = "default" THEN "none" ELSE Sniff(r.xml))
              ELSE "none"
MetaEnc(r) == IF r.mt \in {"html", "text"} THEN Lower(r.meta) ELSE "none"

ExpectedEncoding(r) ==
    IF r.http # "none" THEN HttpEnc(r)
    ELSE IF IsXmlApp(r.mt) THEN XmlEnc(r)
    ELSE IF r.mt = "html" THEN (IF r.meta # "none" THEN Lower(r.meta) ELSE "iso-8859-1")
    ELSE MediaDefault(r.mt)

\* mismatch: two sources both known and different.  A source that only supplies a default (no XML declaration
\* and no BOM) is not "determined from the document": whether it takes part is left open ("any").
Known(r) == {e \in {HttpEnc(r), MetaEnc(r)} : e # "none"} \cup (IF XmlEnc(r) # "none" /\ Sniff(r.xml) # "default" THEN {XmlEnc(r)} ELSE {})
ExpectedMismatch(r) ==
    IF Cardinality(Known(r)) > 1 THEN "true"
    ELSE IF IsXmlApp(r.mt) /\ Sniff(r.xml) = "default" /\ Known(r) # {} /\ Known(r) # {"utf-8"} THEN "any"
    ELSE "false"

RowFailing(r, o) ==
    IF o.out # "ok" THEN "ReturnsEncodingInfo"
    ELSE IF o.encoding # ExpectedEncoding(r) THEN "EncodingFollowsPrecedence"
    ELSE IF ExpectedMismatch(r) # "any" /\ o.mismatch # ExpectedMismatch(r) THEN "MismatchIffTwoKnownSourcesDiffer"
    ELSE IF o.http # HttpEnc(r) THEN "HttpEncodingReported"
    ELSE IF o.xml # XmlEnc(r) THEN "XmlEncodingReported"
    ELSE IF o.meta # MetaEnc(r) THEN "MetaEncodingReported"
    \* the same answer again after other documents (truncated inside <style>, inside a comment) have been analysed in between
    ELSE IF ~o.stable THEN "AnswerIndependentOfEarlierDocuments"
    ELSE "ok"

\* ---- sniffers ------------------------------------------------------------------------------------------
\* detectXMLEncoding on a document (string or stream positioned at `pos`): result and stream position;
\* incdef = the includeDefault argument (FALSE: "no declaration, no BOM" is reported as None instead of utf-8)
SniffFailing(s, o) ==
    IF o.out # "ok" THEN "SnifferReturns"
    ELSE IF o.result # (IF Sniff(s.xml) = "default" THEN (IF s.incdef THEN "utf-8" ELSE "none") ELSE Sniff(s.xml)) THEN "SniffBomThenDeclarationThenUtf8"
    ELSE IF o.pos # s.pos THEN "StreamPositionUntouched"
    ELSE "ok"
MediaTypeFailing(m, o) == IF o.result # MediaDefault(m.mt) /\ ~(IsXmlApp(m.mt) /\ o.result = "utf-8") THEN "DefaultByMediaType" ELSE "ok"
=============================================================================
