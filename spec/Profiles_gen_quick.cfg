SPECIFICATION Spec
CONSTANTS
  Emit = TRUE
  MaxHist = 4
  Deviations = TRUE
VIEW View
INVARIANT EmitAlphabet
