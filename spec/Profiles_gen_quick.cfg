SPECIFICATION Spec
CONSTANTS
  Emit = TRUE
  MaxHist = 5
  Deviations = TRUE
VIEW View
INVARIANT EmitAlphabet
