SPECIFICATION Spec
CONSTANTS
  Emit = TRUE
  Deviations = FALSE
  MaxLen = 2
  MaxHist = 3
  Templates <- TemplatesQuick
  KidKinds = {"style", "comment", "import", "margin", "media", "fontface"}
  Texts <- TextsAll
CONSTRAINT Bounded
VIEW View
INVARIANT EmitAlphabet
