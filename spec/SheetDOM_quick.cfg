SPECIFICATION Spec
CONSTANTS
  Emit = FALSE
  Deviations = FALSE
  MaxLen = 3
  MaxHist = 5
  Templates <- TemplatesQuick
  KidKinds = {"style", "comment", "import", "margin", "media", "fontface"}
  Texts <- TextsAll
CONSTRAINT Bounded
VIEW View
INVARIANT AlwaysValid
PROPERTY RefAllowed
