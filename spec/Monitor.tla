------------------------------ MODULE Monitor ------------------------------
(***************************************************************************)
(* Generic batch trace monitor.  A trace file (ndjson, one trace per line) *)
(* is loaded by the instantiating module as  Traces ; every trace is       *)
(*   [id |-> ..., init |-> obs, steps |-> << [a |-> ..., out, post |-> obs, ...], ... >>]      *)
(* where obs is the full projected abstract state read back from the real  *)
(* object through public accessors after each call.  Each trace is one     *)
(* behaviour of this machine (one initial state per trace); step l+1 is    *)
(* judged from the OBSERVED state after step l by the contract operators   *)
(*   StepClause(pre, ev)  and  StateClause(obs)                            *)
(* which return "ok" or the name of the first clause that fails.           *)
(* A rejected trace stops and is reported with a BAD line; acceptance of   *)
(* the whole batch is  distinct states = sum (Len(steps) + 1)  (checked by *)
(* the harness; the POSTCONDITION prints TLC's count of distinct states).  *)
(***************************************************************************)
EXTENDS Naturals, Sequences, TLC
CONSTANTS Traces, StepClause(_, _), StateClause(_)
VARIABLES tid, l, bad

MInit == /\ tid \in 1..Len(Traces)
         /\ l = 0
         /\ bad = StateClause(Traces[tid].init)
MNext == /\ bad = "ok"
         /\ l < Len(Traces[tid].steps)
         /\ LET pre == IF l = 0 THEN Traces[tid].init ELSE Traces[tid].steps[l].post
                ev  == Traces[tid].steps[l + 1]
                c   == StepClause(pre, ev)
            IN  bad' = IF c = "ok" THEN StateClause(ev.post) ELSE c
         /\ l' = l + 1
         /\ UNCHANGED tid
MSpec == MInit /\ [][MNext]_<<tid, l, bad>>

\* one line per rejected trace: trace id, index of the rejected step (0 = initial state), failing clause
MReport == bad # "ok" => PrintT(<<"BAD", Traces[tid].id, l, bad>>)
MDone == PrintT(<<"MONITOR", Len(Traces), TLCGet("stats").distinct>>)
=============================================================================
