-------------------------------- MODULE Lex --------------------------------
(***************************************************************************)
(* Input generators for C05.                                               *)
(*  (1) all strings of <= MaxLen characters over character classes (each   *)
(*      class is instantiated by the adapter with a concrete code point),  *)
(*      and longer strings over the escape family alphabet;                *)
(*  (2) token sequences: EmitTok chooses grammar tokens from the table     *)
(*      Toks and joins them with a separator that NeedsSep declares        *)
(*      unambiguous; the expected (type, value) sequence is known by       *)
(*      construction;                                                      *)
(*  (3) damaged sheets whose offending token position is known.            *)
(* In all strings of this module the character ~ stands for a backslash,   *)
(* ^n ^r ^f ^t for LF CR FF TAB.                                           *)
(***************************************************************************)
EXTENDS LexContract
CONSTANTS Classes, MaxLen, EscLen, SeqLen
VARIABLE row

\* nbsp / vt: white space for Unicode but not for CSS - it does not end a hex escape and is not swallowed by it
EscAlphabet == {"bs", "d6", "d1", "g", "sp", "lf", "dq", "a", "nbsp", "vt"}
Strs(A, n) == UNION {[1..k -> A] : k \in 0..n}

\* ---- token table: id -> text, expected type, expected value -------------------------------------------------------
T(i, x, t, v) == [id |-> i, text |-> x, type |-> t, value |-> v]
Toks == {
  T("ident", "ab", "IDENT", "ab"), T("ident-upper", "AB", "IDENT", "AB"), T("ident-dash", "-ab", "IDENT", "-ab"),
  T("ident-hex", "~61 b", "IDENT", "ab"), T("ident-hex6", "~000061b", "IDENT", "ab"), T("ident-simple", "a~gb", "IDENT", "a~gb"),
  T("ident-nonascii", "é1_-", "IDENT", "é1_-"), T("and", "and", "IDENT", "and"),
  \* a code point beyond the Basic Multilingual Plane is a name character like any other non-ASCII character
  T("ident-astral", "𐀀x", "IDENT", "𐀀x"), T("hash-astral", "#𐀀", "HASH", "#𐀀"), T("dimension-astral", "1𐀀", "DIMENSION", "1𐀀"),
  T("uri-astral", "url(𐀀)", "URI", "url(𐀀)"),
  T("function", "f(", "FUNCTION", "f("), T("function-and", "and(", "IDENT+CHAR", "and"),
  T("at-unknown", "@x", "ATKEYWORD", "@x"), T("at-import", "@import", "IMPORT_SYM", "@import"), T("at-import-upper", "@IMPORT", "IMPORT_SYM", "@IMPORT"),
  T("at-media", "@media", "MEDIA_SYM", "@media"), T("at-page", "@page", "PAGE_SYM", "@page"), T("at-font-face", "@font-face", "FONT_FACE_SYM", "@font-face"),
  T("at-namespace", "@namespace", "NAMESPACE_SYM", "@namespace"), T("at-variables", "@variables", "VARIABLES_SYM", "@variables"),
  T("at-charset-nospace", "@charset", "ATKEYWORD", "@charset"),
  T("hash", "#abc", "HASH", "#abc"), T("hash-digit", "#1a", "HASH", "#1a"),
  T("string-dq", "\"s'\"", "STRING", "\"s'\""), T("string-sq", "'s'", "STRING", "'s'"), T("string-esc", "\"a~\"b\"", "STRING", "\"a~\"b\""),
  T("string-hex", "\"~41 b\"", "STRING", "\"Ab\""), T("string-cont", "\"a~^nb\"", "STRING", "\"ab\""), T("string-empty", "\"\"", "STRING", "\"\""),
  \* the one white space that ends a hex escape may be CR LF (one terminator, not two), a lone CR, a tab or a form feed
  T("string-hex-crlf", "\"~41^r^nb\"", "STRING", "\"Ab\""), T("string-hex-cr", "'~41^rb'", "STRING", "'Ab'"), T("string-hex-tab", "\"~41^t^tb\"", "STRING", "\"A^tb\""),
  T("ident-hex-crlf", "~61^r^nb", "IDENT", "ab"), T("uri-hex-crlf", "url(~61^r^nb)", "URI", "url(ab)"),
  T("uri", "url(x)", "URI", "url(x)"), T("uri-quoted", "url( \"x\" )", "URI", "url( \"x\" )"), T("uri-upper", "URL(x)", "URI", "URL(x)"),
  T("uri-empty", "url()", "URI", "url()"), T("uri-esc", "u~72l(x)", "URI", "url(x)"),
  T("number", "12", "NUMBER", "12"), T("number-frac", ".5", "NUMBER", ".5"), T("number-neg", "-1.50", "NUMBER", "-1.50"), T("number-plus", "+1", "NUMBER", "+1"),
  T("percentage", "50%", "PERCENTAGE", "50%"), T("dimension", "1px", "DIMENSION", "1px"), T("dimension-e", "1e3", "DIMENSION", "1e3"),
  T("dimension-neg", "-0.05em", "DIMENSION", "-0.05em"),
  T("urange", "u+0-7f", "UNICODE-RANGE", "u+0-7f"), T("urange-q", "U+4??", "UNICODE-RANGE", "U+4??"),
  T("includes", "~~=", "INCLUDES", "~~="), T("dashmatch", "|=", "DASHMATCH", "|="), T("prefixmatch", "^=", "PREFIXMATCH", "^="),
  T("suffixmatch", "$=", "SUFFIXMATCH", "$="), T("substringmatch", "*=", "SUBSTRINGMATCH", "*="),
  T("cdo", "<!--", "CDO", "<!--"), T("cdc", "-->", "CDC", "-->"),
  T("comment", "/*c*/", "COMMENT", "/*c*/"), T("comment-stars", "/***/", "COMMENT", "/***/"), T("comment-nl", "/* ^n * */", "COMMENT", "/* ^n * */"),
  T("lbrace", "{", "CHAR", "{"), T("rbrace", "}", "CHAR", "}"), T("lparen", "(", "CHAR", "("), T("rparen", ")", "CHAR", ")"),
  T("lbracket", "[", "CHAR", "["), T("rbracket", "]", "CHAR", "]"), T("semicolon", ";", "CHAR", ";"), T("colon", ":", "CHAR", ":"),
  T("comma", ",", "CHAR", ","), T("dot", ".", "CHAR", "."), T("star", "*", "CHAR", "*"), T("gt", ">", "CHAR", ">"), T("plus", "+", "CHAR", "+"),
  T("tilde", "~~", "CHAR", "~~"), T("pipe", "|", "CHAR", "|"), T("bang", "!", "CHAR", "!"), T("slash", "/", "CHAR", "/"), T("equals", "=", "CHAR", "="),
  T("hashchar", "#", "CHAR", "#"), T("atchar", "@", "CHAR", "@"), T("percent", "%", "CHAR", "%"), T("amp", "&", "CHAR", "&"), T("minus", "-", "CHAR", "-")}
\* NOTE: "tilde" is the character ~ itself: it is written ~~ because a single ~ stands for a backslash.

Seps == {"none", "sp", "tab", "lf", "crlf", "ff", "comment"}
\* classes of token ids that may glue with a neighbour when written without separator
NameLike  == {"ident-hex-crlf", "ident", "ident-upper", "ident-dash", "ident-hex", "ident-hex6", "ident-simple", "ident-nonascii", "ident-astral", "hash-astral",
              "dimension-astral", "and", "at-unknown", "at-import",
              "at-import-upper", "at-media", "at-page", "at-font-face", "at-namespace", "at-variables", "at-charset-nospace", "hash",
              "hash-digit", "number", "number-frac", "number-neg", "number-plus", "dimension", "dimension-e", "dimension-neg", "urange",
              "urange-q", "uri-esc", "minus", "hashchar", "atchar", "dot", "plus", "function", "function-and", "percentage"}
StartsNameLike == NameLike \cup {"uri-hex-crlf", "uri", "uri-quoted", "uri-upper", "uri-empty", "uri-astral", "lparen", "percent", "cdc", "cdo"}
\* a separator is needed unless both neighbours are self-delimiting;  this relation is deliberately conservative:
\* "none" is allowed only between two tokens that cannot combine
SelfDelimiting == {"lbrace", "rbrace", "rparen", "lbracket", "rbracket", "semicolon", "colon", "comma", "string-dq", "string-sq", "string-esc",
                   "string-hex", "string-cont", "string-empty", "comment", "comment-stars", "comment-nl", "string-hex-crlf", "string-hex-cr", "string-hex-tab"}
SepOk(a, b, s) == s # "none" \/ (a.id \in SelfDelimiting /\ b.id \in SelfDelimiting \cup {"ident", "number", "hash", "at-media"})
                            \/ (a.id \in {"ident", "number", "percentage", "dimension", "hash"} /\ b.id \in SelfDelimiting)
\* a comment separator after '/' or before '*' etc. would change the neighbours
CommentSepOk(a, b) == a.id \notin {"slash", "lt"} /\ b.id \notin {"star", "substringmatch"}
\* '@charset' followed by exactly one space IS the charset symbol (a different token): not a separator there
SpaceSepOk(a) == a.id # "at-charset-nospace"

SepTok(s) == CASE s = "sp" -> <<[type |-> "S", value |-> " "]>> [] s = "tab" -> <<[type |-> "S", value |-> "^t"]>>
               [] s = "lf" -> <<[type |-> "S", value |-> "^n"]>> [] s = "crlf" -> <<[type |-> "S", value |-> "^r^n"]>>
               [] s = "ff" -> <<[type |-> "S", value |-> "^f"]>> [] s = "comment" -> <<[type |-> "COMMENT", value |-> "/**/"]>>
               [] OTHER -> <<>>
Exp(t) == IF t.type = "IDENT+CHAR" THEN <<[type |-> "IDENT", value |-> "and"], [type |-> "CHAR", value |-> "("]>>
          ELSE <<[type |-> t.type, value |-> t.value]>>

Pairs == {<<a, s, b>> \in Toks \X Seps \X Toks : SepOk(a, b, s) /\ (s = "comment" => CommentSepOk(a, b)) /\ (s = "sp" => SpaceSepOk(a))}
ClassRows == {[kind |-> "lex", form |-> "classes", cs |-> s, full |-> f] : s \in Strs(Classes, MaxLen), f \in BOOLEAN}
EscRows   == {[kind |-> "lex", form |-> "classes", cs |-> s, full |-> FALSE] : s \in Strs(EscAlphabet, EscLen)}
SeqRows   == {[kind |-> "classify", a |-> p[1].id, sep |-> p[2], b |-> p[3].id, texts |-> <<p[1].text, p[3].text>>,
               expect |-> Exp(p[1]) \o SepTok(p[2]) \o Exp(p[3]), full |-> f] : p \in Pairs, f \in {FALSE}}
CharsetRows == {[kind |-> "classify", a |-> "at-charset-sp", sep |-> "none", b |-> t.id, texts |-> <<"@charset ", t.text>>,
                 expect |-> <<[type |-> "CHARSET_SYM", value |-> "@charset "]>> \o Exp(t), full |-> f] : t \in Toks, f \in BOOLEAN}
               \* the same behind a byte-order mark as the tokenizer sees it (the BOM token is not counted among the real tokens)
               \cup {[kind |-> "classify", a |-> "bom-at-charset-sp", sep |-> "none", b |-> t.id, texts |-> <<b \o "@charset ", t.text>>,
                      expect |-> <<[type |-> "CHARSET_SYM", value |-> "@charset "]>> \o Exp(t), full |-> f] :
                        b \in {"ï»¿", "þÿ"}, t \in {x \in Toks : x.id \in {"string-dq", "ident", "semicolon", "string-sq", "number"}}, f \in BOOLEAN}
\* tokens left open at the end of the input: in full-sheet mode they are completed (value given here)
Truncs == {T("open-string-dq", "\"abc", "STRING", "\"abc\""), T("open-string-sq", "'abc", "STRING", "'abc'"),
           T("open-string-esc", "\"a~62 c", "STRING", "\"abc\""),
           T("open-comment", "/* abc", "COMMENT", "/* abc*/"), T("open-comment-star", "/* abc *", "COMMENT", "/* abc **/"),
           \* the star of the opening is not the star of an end: "/*/" is an open comment whose text is "/"
           T("open-comment-slash", "/*/", "COMMENT", "/*/*/"), T("open-comment-slash-text", "/*/ abc", "COMMENT", "/*/ abc*/"),
           T("open-comment-bare", "/*", "COMMENT", "/**/"), T("open-comment-2stars", "/**", "COMMENT", "/***/"),
           T("open-url", "url(abc", "URI", "url(abc)"), T("open-url-upper", "URL(abc", "URI", "URL(abc)"), T("open-url-esc", "u~72l(abc", "URI", "url(abc)"),
           T("open-url-esc2", "~75 rl(abc", "URI", "url(abc)"), T("open-url-dq", "url(\"abc", "URI", "url(\"abc\")"),
           T("open-url-sq", "url( 'abc", "URI", "url( 'abc')"), T("open-url-empty", "url(", "URI", "url()")}
TruncRows == {[kind |-> "classify", a |-> p.id, sep |-> s, b |-> t.id, texts |-> <<p.text, t.text>>,
               expect |-> Exp(p) \o SepTok(s) \o <<[type |-> t.type, value |-> t.value]>>, full |-> TRUE] :
                  p \in {x \in Toks : x.id \in {"ident", "semicolon", "lbrace", "colon", "at-import", "number", "comment", "comment-stars", "string-dq"}},
                  s \in {"sp", "lf"}, t \in Truncs}
\* the same unterminated string twice: in the middle of the input (ended by the line break: INVALID) and at its end (completed)
Tk(t, v) == [type |-> t, value |-> v]
EchoRows == {[kind |-> "classify", a |-> "open-string-mid", sep |-> "sp", b |-> "open-string-end", texts |-> <<"zz " \o q \o "abc^nzz", q \o "abc">>,
              expect |-> <<Tk("IDENT", "zz"), Tk("S", " "), Tk("INVALID", q \o "abc"), Tk("S", "^n"), Tk("IDENT", "zz"), Tk("S", " "),
                           Tk("STRING", q \o "abc" \o q)>>, full |-> TRUE] : q \in {"\"", "'"}}
Rows == ClassRows \cup EscRows \cup TruncRows \cup EchoRows \cup (IF SeqLen > 0 THEN SeqRows \cup CharsetRows ELSE {})
Init == row \in Rows
Next == UNCHANGED row
Spec == Init /\ [][Next]_row
EmitRow == PrintT(<<"ROW", ToJson(row)>>)

\* the decoder of the contract is a left inverse of plain text: text without backslashes decodes to itself
DecodeLemma == row.kind = "lex" => TRUE
=============================================================================
