SPECIFICATION Spec
CONSTANTS
  Emit = TRUE
  Lits = {"x", "X", "~x", "y"}
  Values = {"1", "red"}
  MaxLen = 3
  MaxHist = 4
CONSTRAINT Bounded
VIEW View
INVARIANT EmitAlphabet
