SPECIFICATION Spec
CONSTANTS
  Emit = TRUE
  Lits = {"x", "X", "~x", "y", "Y", "zz", "Zz"}
  Values = {"1", "red", "1px"}
  MaxLen = 3
  MaxHist = 4
CONSTRAINT Bounded
VIEW View
INVARIANT EmitAlphabet
