------------------------------- MODULE Values -------------------------------
(* Enumerates literals for C18 and proves on them (by exact digit arithmetic) that the documented canonical form     *)
(* denotes the same number: Den(Canon(n)) = Den(n), and that hash shortening is lossless exactly when pairs agree. *)
EXTENDS ValuesContract
CONSTANTS Ints, Fracs, Units, BoundaryHex
VARIABLE row
N(s, i, f, u) == [sign |-> s, int |-> i, frac |-> f, unit |-> u]
NumRows == {[kind |-> "number", n |-> N(s, i, f, u), olz |-> z] :
               s \in {"", "+", "-"}, i \in Ints, f \in Fracs, u \in Units, z \in BOOLEAN} 
\* integers beyond 2^53 (no binary64 holds them): exact only without a fractional part, which is how they are generated
BigInts == {<<9, 0, 0, 7, 1, 9, 9, 2, 5, 4, 7, 4, 0, 9, 9, 3>>, <<1, 2, 3, 4, 5, 6, 7, 8, 9, 0, 1, 2, 3, 4, 5, 6, 7, 8, 9, 0, 1>>,
            <<9, 9, 9, 9, 9, 9, 9, 9, 9, 9, 9, 9, 9, 9, 9, 9, 9>>}
BigRows == {[kind |-> "number", n |-> N(s, i, <<>>, u), olz |-> z] : s \in {"", "+", "-"}, i \in BigInts, u \in Units, z \in BOOLEAN}
Hex == 0..15
ShortHashes == [1..3 -> Hex]
LongHashes == {h \in [1..6 -> BoundaryHex] : TRUE}
HashRows == {[kind |-> "hash", h |-> h, minimize |-> m] : h \in ShortHashes \cup LongHashes, m \in BOOLEAN}
Grid == {0, 51, 102, 153, 204, 255}
ColourRows == {[kind |-> "colour", rgb |-> <<r, g, b>>, alpha |-> a] : r \in Grid, g \in Grid, b \in Grid, a \in {"1", "0.5", "0"}}
              \cup {[kind |-> "named", name |-> nm, rgb |-> Named[nm], alpha |-> "1"] : nm \in DOMAIN Named}
Atoms == {"solid", "1px", "50%", "\"s\"", "url(x)", "#abc", "f(1, 2)"}
ListRows == {[kind |-> "list", comps |-> <<a, s, b>>] : a \in Atoms, s \in {" ", ",", "/"}, b \in Atoms}
            \cup {[kind |-> "list", comps |-> <<a, s, b, t, c>>] : a \in {"solid", "1px"}, s \in {" ", ",", "/"}, b \in Atoms, t \in {" ", ",", "/"}, c \in {"solid", "50%"}}
Rows == {r \in NumRows : ~(r.n.int = <<>> /\ r.n.frac = <<>>)} \cup BigRows \cup HashRows \cup ColourRows \cup ListRows
Init == row \in Rows
Next == UNCHANGED row
Spec == Init /\ [][Next]_row
\* design-level lemmas, checked on every enumerated literal
CanonKeepsDenotation == row.kind = "number" => /\ Den(Canon(row.n, row.olz)) = Den(row.n)
                                               /\ UnitOk(row.n, Canon(row.n, row.olz))
                                               /\ Den(Canon(Canon(row.n, row.olz), row.olz)) = Den(row.n)
ShorteningLossless == row.kind = "hash" /\ Len(row.h) = 6 =>
                         (Shortenable(row.h) <=> HashChannels(<<row.h[1], row.h[3], row.h[5]>>) = HashChannels(row.h))
IntsQuick == {<<>>, <<0>>, <<1>>, <<0, 0>>, <<1, 0>>, <<0, 5>>, <<9, 9, 9>>}
FracsQuick == {<<>>, <<0>>, <<5>>, <<5, 0>>, <<0, 5>>, <<0, 0, 5>>, <<1, 0, 5>>, <<0, 0, 0, 0, 0, 1>>, <<9, 9, 9, 9, 9, 9>>}
IntsThorough == IntsQuick \cup {<<5>>, <<9>>, <<1, 2, 3>>, <<1, 0, 0, 0, 0, 0>>, <<9, 9, 9, 9, 9, 9, 9, 9, 9>>}
FracsThorough == FracsQuick \cup {<<1>>, <<9>>, <<5, 0, 0>>, <<1, 2, 5>>, <<1, 0, 0, 0, 0, 0>>, <<0, 9, 0, 9, 0, 9>>}
EmitRow == PrintT(<<"ROW", ToJson(row)>>)
=============================================================================
