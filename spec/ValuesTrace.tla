----------------------------- MODULE ValuesTrace -----------------------------
EXTENDS ValuesContract, IOUtils
VARIABLES tid, l, bad
Traces == ndJsonDeserialize(IOEnv.TRACE_FILE)
StepClause(pre, ev) == CASE ev.a.kind = "number" -> NumberFailing(ev.a, ev.post) [] ev.a.kind = "hash" -> HashFailing(ev.a, ev.post)
                         [] ev.a.kind \in {"colour", "named"} -> ColourFailing(ev.a, ev.post) [] ev.a.kind = "list" -> ListFailing(ev.a, ev.post)
StateClause(o) == "ok"
INSTANCE Monitor
=============================================================================
