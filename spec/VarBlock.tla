------------------------------ MODULE VarBlock ------------------------------
(* Machine explored by TLC for the variables block: histories of setVariable /     *)
(* removeVariable / item assignment, deletion / cssText assignment.                *)
EXTENDS VarBlockContract
CONSTANTS Lits, Values, MaxLen, MaxHist
CONSTANT Emit   \* TRUE in the behaviour-generation configs: print every explored transition
VARIABLES list, hist
vars == <<list, hist>>

TextDecls == {<<>>} \cup {<<[lit |-> l, value |-> v]>> : l \in Lits, v \in Values \cup {BadValue}}
                    \cup {<<[lit |-> l1, value |-> "1"], [lit |-> l2, value |-> v]>> : l1, l2 \in Lits, v \in {"red", BadValue}}
Alphabet ==
    {[op |-> o, lit |-> l, value |-> v] : o \in {"setvar", "setitem"}, l \in Lits, v \in Values \cup {BadValue}}
    \cup {[op |-> o, lit |-> l] : o \in {"removevar", "delitem"}, l \in Lits}
    \cup {[op |-> "settext", decls |-> ds] : ds \in TextDecls}

Act(a) == Len(hist) < MaxHist /\ list' = Ref(list, a).list /\ hist' = Append(hist, a)
          /\ (Emit => PrintT(<<"HIST", ToJson([h |-> Append(hist, a), s |-> list])>>))
Init == list = <<>> /\ hist = <<>>
Next == \E a \in Alphabet : Act(a)
Spec == Init /\ [][Next]_vars
Bounded == Len(list) <= MaxLen
View == list

MapDiscipline == Functional(list)
SetThenGet == [][LET a == hist'[Len(hist')] IN
                   (a.op \in {"setvar", "setitem"} /\ ~IsBad(a)) => Lookup(list', VNorm(a.lit)) = a.value]_vars
RemoveThenAbsent == [][LET a == hist'[Len(hist')] IN
                   a.op \in {"removevar", "delitem"} =>
                       VNorm(a.lit) \notin NamesOf(list') /\ NamesOf(list') = NamesOf(list) \ {VNorm(a.lit)}]_vars
RejectedUnchanged == [][Ref(list, hist'[Len(hist')]).out \in DOMExc => list' = list]_vars
RefAccepted == [][FirstFailing(list, hist'[Len(hist')], Ref(list, hist'[Len(hist')])) = "ok"]_vars

EmitWalk == Len(hist) = MaxHist => PrintT(<<"WALK", ToJson(hist)>>)
EmitAlphabet == hist = <<>> => PrintT(<<"ALPHABET", ToJson(Alphabet)>>)
=============================================================================
