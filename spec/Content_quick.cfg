SPECIFICATION Spec
CONSTANTS
  MaxLen = 2
INVARIANT QuoteLossless
INVARIANT EmitRow
