SPECIFICATION Spec
CONSTANTS
  Emit = TRUE
  Lits = {"color", "COLOR", "c~olor", "left", "lef~t", "top"}
  Values = {"red", "blue", "1px"}
  Prios = {"", "!important", "!IMPORTANT"}
  MaxLen = 4
  MaxHist = 6
CONSTRAINT Bounded
VIEW View
INVARIANT EmitAlphabet
