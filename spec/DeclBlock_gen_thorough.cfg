SPECIFICATION Spec
CONSTANTS
  Emit = TRUE
  Lits = {"color", "COLOR", "c~olor", "left", "lef~t"}
  Values = {"red", "blue", "1px"}
  Prios = {"", "!important", "!IMPORTANT"}
  MaxLen = 3
  MaxHist = 6
CONSTRAINT Bounded
VIEW View
INVARIANT EmitAlphabet
