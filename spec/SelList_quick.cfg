SPECIFICATION Spec
CONSTANTS
  Emit = FALSE
  Sels = {"a", "b > c", ".d"}
  MaxLen = 3
  MaxHist = 4
CONSTRAINT Bounded
VIEW View
PROPERTY NoDuplicatesAfterAppend
PROPERTY RefAllowed
