SPECIFICATION Spec
CONSTANTS
  Emit = FALSE
  Deviations = FALSE
  Parsers = {"p1", "p2"}
  MaxHist = 5
VIEW View
INVARIANT ModeIsContractMode
