------------------------------ MODULE NsParse ------------------------------
(* C15, parsing: rows (declared in time, late @namespace rule, selector form used after it, nesting) - the complete table. *)
EXTENDS NamespacesContract, Json
VARIABLE row
Rows == {[kind |-> "nsparse", declared |-> d, late |-> l, use |-> u, where |-> w] :
            d \in {"none", "p", "default"}, l \in {"q", "p", "default"}, u \in {"q|e", "p|e", "e", "*|e", "|e", "[p|a]"}, w \in {"rule", "media"}}
DupRows == {[kind |-> "nsdupes", order |-> o] : o \in {<<"a", "b", "c", "d">>, <<"a", "b", "d", "c">>, <<"a", "d", "b", "c">>, <<"d", "c", "b", "a">>,
                                                   <<"a", "c", "d">>, <<"c", "a", "b", "d">>}}
Init == row \in Rows \cup DupRows
Next == UNCHANGED row
Spec == Init /\ [][Next]_row
\* the reference observation satisfies the clauses (the contract is satisfiable on every row)
RefObs(r) == LET usable == r.use \in {"e", "*|e", "|e"} \/ (r.use \in {"p|e", "[p|a]"} /\ r.declared = "p")
             IN  [out |-> "ok", mapping |-> CASE r.declared = "none" -> <<>> [] r.declared = "p" -> <<<<"p", "u1">>>> [] OTHER -> <<<<"", "u1">>>>,
                  present |-> usable,
                  uri |-> CASE r.use \in {"p|e", "[p|a]"} -> "u1" [] r.use = "e" -> (IF r.declared = "default" THEN "u1" ELSE "none")
                            [] r.use = "*|e" -> "*any*" [] OTHER -> ""]
Satisfiable == row.kind = "nsparse" => NsParseFailing(row, RefObs(row)) = "ok"
EmitRow == PrintT(<<"ROW", ToJson(row)>>)
=============================================================================
