SPECIFICATION Spec
CONSTANTS
  MaxGarbage = 3
  CutStep = 1
INVARIANT GarbageNonTrivial
INVARIANT EmitRow
