----------------------------- MODULE LexContract -----------------------------
(***************************************************************************)
(* C05: the tokenizer is total, lossless, position-accurate.               *)
(* UNIVERSAL MONITOR - for any text (sequence of code points) and the      *)
(* token list [type, value (code points), line, col] the real tokenizer    *)
(* produced for it:                                                        *)
(*  - the source offset of every token is computed from its (line, col)    *)
(*    by counting LINE FEEDS in the text;                                  *)
(*  - offsets strictly increase from 0 (after a byte-order mark), so the   *)
(*    spans  text[off_i .. off_{i+1})  tile the input: nothing skipped,    *)
(*    nothing read twice;                                                  *)
(*  - value = span with CSS escapes decoded as the syntax prescribes:      *)
(*    escapes are consumed left to right ("\\" is a unit), a hex escape is *)
(*    1-6 hex digits plus one optional white space (CR LF counts as one),  *)
(*    out-of-range values are kept, backslash-newline inside a string is   *)
(*    removed.  Simple escapes (backslash + other character) may be kept   *)
(*    or resolved; for token types cssutils does not list as decoded the   *)
(*    raw span is accepted as well;                                        *)
(*  - in full-sheet mode exactly one EOF follows, positioned at the end,   *)
(*    and only the last real token may be completed (star-slash, closing   *)
(*    quote, closing parenthesis).                                         *)
(***************************************************************************)
EXTENDS Naturals, Sequences, FiniteSets, TLC, SequencesExt, Json

BS == 92
LF == 10
IsHex(c) == (c >= 48 /\ c <= 57) \/ (c >= 65 /\ c <= 70) \/ (c >= 97 /\ c <= 102)
HexVal(c) == IF c <= 57 THEN c - 48 ELSE IF c <= 70 THEN c - 55 ELSE c - 87
IsWs(c) == c \in {9, 10, 12, 13, 32}
IsNl(c) == c \in {10, 12, 13}

\* number of hex digits (at most 6) starting at position i
RECURSIVE HexRun(_, _, _)
HexRun(s, i, n) == IF n < 6 /\ i + n <= Len(s) /\ IsHex(s[i + n]) THEN HexRun(s, i, n + 1) ELSE n
RECURSIVE HexNum(_, _, _, _)
HexNum(s, i, n, acc) == IF n = 0 THEN acc ELSE HexNum(s, i + 1, n - 1, acc * 16 + HexVal(s[i]))

\* escape decoding from position i;  str: remove backslash-newline;  simple: resolve simple escapes too
RECURSIVE Dec(_, _, _, _)
Dec(s, i, str, simple) ==
    IF i > Len(s) THEN <<>>
    ELSE IF s[i] # BS THEN <<s[i]>> \o Dec(s, i + 1, str, simple)
    ELSE IF i = Len(s) THEN <<BS>>
    ELSE IF IsHex(s[i + 1]) THEN
        LET n == HexRun(s, i + 1, 0)
            v == HexNum(s, i + 1, n, 0)
            j == i + 1 + n
            k == IF j + 1 <= Len(s) /\ s[j] = 13 /\ s[j + 1] = 10 THEN j + 2 ELSE IF j <= Len(s) /\ IsWs(s[j]) THEN j + 1 ELSE j
        IN  (IF v <= 1114111 THEN <<v>> ELSE SubSeq(s, i, k - 1)) \o Dec(s, k, str, simple)
    ELSE IF str /\ IsNl(s[i + 1]) THEN
        (IF s[i + 1] = 13 /\ i + 2 <= Len(s) /\ s[i + 2] = 10 THEN Dec(s, i + 3, str, simple) ELSE Dec(s, i + 2, str, simple))
    ELSE (IF simple THEN <<s[i + 1]>> ELSE <<BS, s[i + 1]>>) \o Dec(s, i + 2, str, simple)

DecodedTypes == {"DIMENSION", "IDENT", "STRING", "URI", "HASH", "COMMENT", "FUNCTION", "INVALID", "UNICODE-RANGE"}
StringTypes == {"STRING", "INVALID"}
Allowed(type, span) ==
    {Dec(span, 1, type \in StringTypes, FALSE), Dec(span, 1, type \in StringTypes, TRUE)}
    \* (CSS has no escapes inside comments: a comment carried as written is "as the syntax prescribes" too; cssutils resolves hex
    \*  escapes in complete comments and leaves a comment completed at the end of input as written)
    \cup (IF type \in DecodedTypes \ {"COMMENT"} THEN {} ELSE {span})

\* ---- positions ---------------------------------------------------------------------------------------------
\* 0-based offset of (line, col) in text t: start of the line (after the (line-1)-th line feed) + col - 1
RECURSIVE LineStart(_, _, _)
LineStart(t, line, i) == IF line = 1 THEN i - 1
                         ELSE IF i > Len(t) THEN Len(t) + 1000          \* no such line
                         ELSE IF t[i] = LF THEN LineStart(t, line - 1, i + 1) ELSE LineStart(t, line, i + 1)
Offset(t, line, col) == LineStart(t, line, 1) + col - 1
\* a byte-order mark the tokenizer recognises is reported as a BOM token of its own (first); positions do not count it
BomLen(r) == IF Len(r.toks) > 0 /\ r.toks[1].type = "BOM" THEN Len(r.toks[1].value) ELSE 0
Body(r) == SubSeq(r.text, BomLen(r) + 1, Len(r.text))

Completions == {<<>>, <<42, 47>>, <<34>>, <<39>>, <<41>>, <<34, 41>>, <<39, 41>>}
\* r.text, r.toks, r.full
Real(r) == SelectSeq(r.toks, LAMBDA k : k.type \notin {"EOF", "BOM"})
Off(r, i) == Offset(Body(r), Real(r)[i].line, Real(r)[i].col)
EndOf(r, i) == IF i = Len(Real(r)) THEN Len(Body(r)) ELSE Off(r, i + 1)
Span(r, i) == SubSeq(Body(r), Off(r, i) + 1, EndOf(r, i))

LexFailing(r) ==
    LET toks == Real(r)  n == Len(toks)  t == Body(r) IN
    IF r.out # "ok" THEN "TokenizingTerminatesWithoutError"
    ELSE IF BomLen(r) > 0 /\ r.toks[1].value # SubSeq(r.text, 1, BomLen(r)) THEN "BomTokenIsTextPrefix"
    ELSE IF \E i \in 2..Len(r.toks) : r.toks[i].type = "BOM" THEN "BomOnlyFirst"
    ELSE IF n = 0 THEN (IF Len(t) = 0 THEN "ok" ELSE "NothingSkipped")
    ELSE IF Off(r, 1) # 0 THEN "FirstTokenStartsAtOffsetZero"
    ELSE IF \E i \in 1..(n - 1) : Off(r, i + 1) <= Off(r, i) THEN "OffsetsStrictlyIncrease"
    ELSE IF Off(r, n) >= Len(t) THEN "LastTokenInsideText"
    ELSE IF \E i \in 1..(n - 1) : toks[i].value \notin Allowed(toks[i].type, Span(r, i)) THEN "ValueIsDecodedSpan"
    ELSE IF ~(\E c \in (IF r.full THEN Completions ELSE {<<>>}) : toks[n].value \in Allowed(toks[n].type, Span(r, n) \o c)) THEN "LastValueIsDecodedSpanPossiblyCompleted"
    ELSE IF r.full /\ (Len(r.toks) = 0 \/ r.toks[Len(r.toks)].type # "EOF"
                       \/ Cardinality({i \in 1..Len(r.toks) : r.toks[i].type = "EOF"}) # 1) THEN "ExactlyOneEofLast"
    \* (the position reported for the end marker is not part of the statement)
    ELSE IF ~r.full /\ \E i \in 1..Len(r.toks) : r.toks[i].type = "EOF" THEN "NoEofOutsideFullSheetMode"
    ELSE "ok"

\* ---- generative classification: a text produced from a known token sequence is recovered exactly ------------
\* r.expect = sequence of [type, value]; comments and white space tokens included
ClassifyFailing(r) ==
    LET got == [i \in 1..Len(Real(r)) |-> [type |-> Real(r)[i].type, value |-> Real(r)[i].value]] IN
    IF r.out # "ok" THEN "TokenizingTerminatesWithoutError"
    ELSE IF Len(got) # Len(r.expect) THEN "SameNumberOfTokens"
    ELSE IF \E i \in 1..Len(got) : got[i].type # r.expect[i].type THEN "TokenTypesRecovered"
    ELSE IF \E i \in 1..Len(got) : got[i].value # r.expect[i].value THEN "TokenValuesRecovered"
    ELSE "ok"

\* ---- error positions: the exception raised for a damaged sheet names the offending token's line and column ---
ErrorPosFailing(r) ==
    IF r.raised = "none" THEN "DamagedInputRaises"
    ELSE IF r.line # r.expline \/ r.col # r.expcol THEN "ErrorCarriesPositionOfOffendingToken"
    ELSE IF r.msgline # r.expline \/ r.msgcol # r.expcol THEN "MessageSuffixCarriesPosition"
    ELSE "ok"
=============================================================================
