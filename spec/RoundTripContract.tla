-------------------------- MODULE RoundTripContract --------------------------
(***************************************************************************)
(* C03: serialise-then-parse is lossless; serialisation is a fixpoint.     *)
(* Observation for a DOM d (obtained by parsing a source, or reached by    *)
(* accepted edits):                                                        *)
(*   dom1  = projection of d            text1 = digest of ser(d)           *)
(*   dom2  = projection of parse(ser(d))  text2 = digest of ser(parse(..)) *)
(*   nodes = for single nodes (rule, declaration block, selector list,     *)
(*           media list, property value): projection and text of the node  *)
(*           and of a fresh object of the same class given that text       *)
(* For content rows additionally the character content read through the    *)
(* typed accessor before and after the round trip.                         *)
(*                                                                         *)
(* The escaping scheme itself (Quote / Unquote over character classes) is  *)
(* specified below and TLC checks that it is lossless for every            *)
(* enumerated content (QuoteLossless).                                     *)
(***************************************************************************)
EXTENDS Naturals, Sequences, FiniteSets, TLC, SequencesExt, Json

NodeFailing(n) == IF n.out # "ok" THEN "NodeTextSetsBack"
                  ELSE IF n.proj2 # n.proj1 THEN "NodeRoundTripKeepsStructure"
                  ELSE IF n.text2 # n.text1 THEN "NodeSerialisationIsFixpoint" ELSE "ok"
RECURSIVE FirstNode(_, _)
FirstNode(ns, i) == IF i > Len(ns) THEN "ok" ELSE IF NodeFailing(ns[i]) # "ok" THEN NodeFailing(ns[i]) ELSE FirstNode(ns, i + 1)

RoundTripFailing(o) ==
    IF o.out # "ok" THEN "DomSerialises"
    ELSE IF o.reparse # "ok" THEN "SerialisationReparses"
    ELSE IF o.dom2 # o.dom1 THEN "ReparseGivesEquivalentDom"
    ELSE IF o.text2 # o.text1 THEN "SerialisationIsFixpoint"
    ELSE FirstNode(o.nodes, 1)

ContentFailing(row, o) ==
    IF o.out # "ok" THEN "DomSerialises"
    ELSE IF o.content1 # row.cps THEN "SourceEscapesDenoteContent"
    ELSE IF o.reparse # "ok" THEN "SerialisationReparses"
    ELSE IF o.content2 # o.content1 THEN "ContentSurvivesRoundTrip"
    ELSE IF o.dom2 # o.dom1 THEN "ReparseGivesEquivalentDom"
    ELSE IF o.text2 # o.text1 THEN "SerialisationIsFixpoint"
    ELSE "ok"

\* ---- the escaping scheme on character classes (design-level lemma) -----------------------------------------------
\* a quoted string may hold any character; the delimiter, the backslash and line breaks must be written as escapes
MustEscapeInString(c) == c \in {"dq", "bs", "lf", "cr", "ff"}
QuoteItem(c) == IF MustEscapeInString(c) THEN <<"esc", c>> ELSE <<"raw", c>>
Quote(cs) == [i \in 1..Len(cs) |-> QuoteItem(cs[i])]
Unquote(qs) == [i \in 1..Len(qs) |-> qs[i][2]]
NoRawBreaker(qs) == \A i \in 1..Len(qs) : qs[i][1] = "raw" => ~MustEscapeInString(qs[i][2])
=============================================================================
