SPECIFICATION Spec
CONSTANTS
  MaxGarbage = 2
  CutStep = 1
INVARIANT GarbageNonTrivial
INVARIANT EmitRow
