------------------------------ MODULE DomNames ------------------------------
(* C10: rows (CSS name, DOM name) for every known property name read from NAMES_FILE; see DomNamesContract. *)
EXTENDS DomNamesContract, Json, IOUtils
VARIABLE row
Names == ndJsonDeserialize(IOEnv.NAMES_FILE)
Rows == {[kind |-> "domname", css |-> Names[i].css, dom |-> ToDom(Names[i].css)] : i \in 1..Len(Names)}
Init == row \in Rows
Next == UNCHANGED row
Spec == Init /\ [][Next]_row
\* the two converters are inverse on the known names (so the mapping is a bijection there)
RoundTrip == ToCss(row.dom) = row.css
NotVacuous == Len(Names) > 100
EmitRow == PrintT(<<"ROW", ToJson(row)>>)

=============================================================================
