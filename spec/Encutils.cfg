SPECIFICATION Spec
INVARIANT TableTotal
INVARIANT EmitRow
