--------------------------- MODULE MediaListTrace ---------------------------
EXTENDS MediaListContract, IOUtils
VARIABLES tid, l, bad
Traces == ndJsonDeserialize(IOEnv.TRACE_FILE)
StepClause(pre, ev) == FirstFailing(pre.list, ev.a, [list |-> ev.post.list, out |-> ev.out, ret |-> ev.ret], ev.mode)
StateClause(o) == ViewClause(o)
INSTANCE Monitor
=============================================================================
