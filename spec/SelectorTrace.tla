---------------------------- MODULE SelectorTrace ----------------------------
EXTENDS SelectorContract, IOUtils
VARIABLES tid, l, bad
Traces == ndJsonDeserialize(IOEnv.TRACE_FILE)
StepClause(pre, ev) == SelectorFailing(ev.a, ev.post)
StateClause(o) == "ok"
INSTANCE Monitor
=============================================================================
