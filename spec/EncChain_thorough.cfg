SPECIFICATION Spec
CONSTANTS
  Depth2 = TRUE
  Depth3 = TRUE
INVARIANT OverrideGoverns
INVARIANT NothingMeansUtf8
INVARIANT EmitRow
