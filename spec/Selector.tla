------------------------------ MODULE Selector ------------------------------
(***************************************************************************)
(* Generator machine for C16: builds selectors from the CSS3 grammar part  *)
(* by part; the expected specificity is known by construction              *)
(* (SelectorContract!Spec4).  ALGORITHM LAYER: cnt mirrors the counting    *)
(* state machine of cssutils.css.selector.New.append with its context      *)
(* stack (attribute / negation / functional pseudo); TLC checks that the   *)
(* algorithm's count equals the by-construction count in every reachable   *)
(* state (CountAsSpecified).                                               *)
(***************************************************************************)
EXTENDS SelectorContract
CONSTANTS MaxParts, MaxCompounds, Emit
VARIABLES parts,      \* the selector built so far
          cnt,        \* algorithm layer: specificity accumulated token by token
          phase       \* "start" of a compound | "in" a compound | "after-pel" | "after-comb"
vars == <<parts, cnt, phase>>

Simple == {[k |-> "id", n |-> "i", arg |-> ""], [k |-> "class", n |-> "c", arg |-> ""],
           [k |-> "attr", n |-> "exists", arg |-> ""], [k |-> "attr", n |-> "~=", arg |-> ""], [k |-> "attr", n |-> "|=", arg |-> ""],
           [k |-> "attr", n |-> "=", arg |-> ""], [k |-> "attr", n |-> "^=", arg |-> ""], [k |-> "attr", n |-> "$=", arg |-> ""],
           [k |-> "attr", n |-> "*=", arg |-> ""],
           [k |-> "pclass", n |-> "hover", arg |-> ""], [k |-> "fpclass", n |-> "nth-child", arg |-> "2n+1"],
           [k |-> "fpclass", n |-> "lang", arg |-> "en"]}
Heads  == {[k |-> "type", n |-> "a", arg |-> ""], [k |-> "universal", n |-> "*", arg |-> ""]}
\* (the last one is a FUNCTIONAL pseudo-element: '::' directly followed by a function - it counts like every pseudo-element)
Pels   == {[k |-> "pel", n |-> "::first-line", arg |-> ""], [k |-> "pel", n |-> ":before", arg |-> ""], [k |-> "pel", n |-> "::after", arg |-> ""],
           [k |-> "pel", n |-> "::slotted(x)", arg |-> ""]}
NotArgs == Heads \cup {[k |-> "id", n |-> "i", arg |-> ""], [k |-> "class", n |-> "c", arg |-> ""], [k |-> "attr", n |-> "=", arg |-> ""],
                       [k |-> "pclass", n |-> "hover", arg |-> ""]}
           \cup {p \in Pels : p.n # "::slotted(x)"}      \* (cssutils also takes a plain pseudo-element as argument: it counts)
Nots   == {[k |-> "not", n |-> "not", arg |-> x] : x \in NotArgs}
Combs  == {[k |-> "comb", n |-> c, arg |-> ""] : c \in {" ", ">", "+", "~"}}
Compounds == Cardinality({i \in 1..Len(parts) : parts[i].k = "comb"}) + 1

\* algorithm layer: how New.append counts one item given the context stack (mirrors selector.py:131-145)
AlgCount(p) == IF p.k = "not" THEN Weight(p.arg.k)                 \* context 'negation': id / class / '[' / negation-type-selector count
               ELSE IF p.k = "attr" THEN <<0, 1, 0>>               \* counted at '[' ; name, operator and value in context 'attrib' do not count
               ELSE IF p.k = "fpclass" THEN <<0, 0, 0>>            \* ':f(' and its expression tokens (context 'pseudo-class') do not count
               ELSE Weight(p.k)
Put(p, ph) == /\ Len(parts) < MaxParts
              /\ parts' = Append(parts, p) /\ cnt' = Add3(cnt, AlgCount(p)) /\ phase' = ph
AddHead   == phase \in {"start", "after-comb"} /\ \E p \in Heads : Put(p, "in")
AddSimple == phase \in {"start", "after-comb", "in"} /\ \E p \in Simple \cup Nots : Put(p, "in")
AddPel    == phase \in {"start", "after-comb", "in"} /\ \E p \in Pels : Put(p, "after-pel")
AddComb   == phase = "in" /\ Compounds < MaxCompounds /\ \E p \in Combs : Put(p, "after-comb")
Init == parts = <<>> /\ cnt = <<0, 0, 0>> /\ phase = "start"
Next == AddHead \/ AddSimple \/ AddPel \/ AddComb
Spec == Init /\ [][Next]_vars

Complete == parts # <<>> /\ phase \in {"in", "after-pel"}
CountAsSpecified == cnt = SpecOf(parts)
PelOnlyLast == \A i \in 1..Len(parts) : parts[i].k = "pel" => i = Len(parts)
EmitRow == (Emit /\ Complete) => PrintT(<<"ROW", ToJson([kind |-> "selector", parts |-> parts])>>)
=============================================================================
