SPECIFICATION Spec
CONSTANTS
  Emit = FALSE
  MaxHist = 4
  Deviations = FALSE
VIEW View
INVARIANT TypeOK
INVARIANT HistoryFree
PROPERTY AddRemoveRestores
PROPERTY RejectedUnchanged
