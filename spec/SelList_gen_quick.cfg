SPECIFICATION Spec
CONSTANTS
  Emit = TRUE
  Sels = {"a", "b > c", ".d"}
  MaxLen = 3
  MaxHist = 4
CONSTRAINT Bounded
VIEW View
INVARIANT EmitAlphabet
