SPECIFICATION Spec
CONSTANTS
  Emit = FALSE
  Queries = {"print", "screen", "tv", "all", "PRINT", "ALL", "not print", "only screen and (color: #fff)", "screen and (min-width: 400px) and (color)", "(max-width: 20em) and (min-width: 10px) and (color)", "print and (min-resolution: 2)"}
  TextTypes = {"print", "screen", "PRINT", "tv"}
  MaxLen = 3
  MaxHist = 5
CONSTRAINT Bounded
VIEW View
INVARIANT AlwaysCanonical
INVARIANT MeaningIdempotent
PROPERTY RefAccepted
PROPERTY AppendIsLast
PROPERTY DeleteExact
PROPERTY RejectedUnchanged
