SPECIFICATION Spec
CONSTANTS
  Emit = TRUE
  MaxHist = 7
  Deviations = TRUE
VIEW View
INVARIANT EmitAlphabet
