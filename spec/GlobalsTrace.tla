---------------------------- MODULE GlobalsTrace ----------------------------
EXTENDS GlobalsContract, IOUtils
VARIABLES tid, l, bad
Traces == ndJsonDeserialize(IOEnv.TRACE_FILE)
StepClause(pre, ev) == LET c == StepFailing(pre, ev.a, ev.post) IN IF c # "ok" THEN c ELSE IF ev.crashed THEN "OperationWorksWhateverWentBefore" ELSE IF OutFailing(ev.a, ev.out) # "ok" THEN OutFailing(ev.a, ev.out) ELSE ProbeFailing(ev)
StateClause(o) == "ok"
INSTANCE Monitor
=============================================================================
