-------------------------------- MODULE Soup --------------------------------
(***************************************************************************)
(* Input generator for C01: a context automaton of the CSS grammar.        *)
(* A context is where the parser is when the generated tokens arrive       *)
(* (sheet level, at-rule preludes, declaration block, property name,       *)
(* value, function argument, selector, attribute selector, pseudo          *)
(* argument, media query, nested rule list); Shift is total: every token   *)
(* has a successor context in every context (forward-compatible parsing).  *)
(* TLC enumerates (context x token sequence <= MaxToks), the nesting       *)
(* sweeps Nest(opener, depth), and the configuration product               *)
(* (entry point x parser options x fetcher kind x import graph).           *)
(***************************************************************************)
EXTENDS SoupContract, IOUtils
CONSTANTS MaxToks, Depths, PairContexts, MaxSelSoup, RunLens, WideLens
VARIABLE row

Contexts == {"sheet", "after-charset", "import-prelude", "namespace-prelude", "media-prelude", "media-rules", "page-prelude", "page-block",
             "fontface-block", "variables-block", "unknown-prelude", "unknown-block", "selector", "attrib", "pseudo-arg", "not-arg",
             "decl-block", "decl-name", "decl-value", "decl-prio", "func-arg", "rgb-arg", "hsl-arg", "var-arg", "var-fallback", "calc-arg", "url-open",
             "paren", "bracket", "style-attr", "margin-block"}
Tokens == {"ident", "IDENT-and", "ident-important", "ident-inherit", "func", "url(", "var(", "calc(", "rgb(", "hsl(", "not(", "nth-child(", "expression(",
           "@charset-sp", "@charset", "@import", "@media", "@page", "@font-face", "@namespace", "@variables", "@top-left", "@x",
           "hash", "string", "uri", "number", "percentage", "dimension", "dimension-esc", "number-huge", "urange", "~=", "|=", "cdo", "cdc", "S", "comment",
           "{", "}", "(", ")", "[", "]", ";", ":", ",", ".", "*", "|", ">", "+", "!", "/", "=", "#", "@", "%", "&", "$", "-", "bs",
           "open-string", "open-comment", "open-url", "nonascii", "astral", "ctl", "nl",
           \* a token of every kind whose DECODED value ends in a line feed (hex escape a): "end of value" must not be taken for "end of line"
           "esc-nl-end"}
\* the context automaton (total): where the parser is after token t in context c; "=" means "stays"
Shift(c, t) ==
    CASE t \in {"{"} /\ c \in {"selector", "sheet"} -> "decl-block"
      [] t = "{" /\ c = "media-prelude" -> "media-rules"
      [] t = "{" /\ c = "page-prelude" -> "page-block"
      [] t = "{" /\ c = "unknown-prelude" -> "unknown-block"
      [] t = "}" /\ c \in {"decl-block", "decl-name", "decl-value", "decl-prio", "media-rules", "page-block", "fontface-block", "variables-block",
                          "unknown-block", "margin-block"} -> "sheet"
      [] t = ";" /\ c \in {"decl-name", "decl-value", "decl-prio"} -> "decl-block"
      [] t = ";" /\ c \in {"import-prelude", "namespace-prelude", "unknown-prelude", "after-charset"} -> "sheet"
      [] t = ":" /\ c \in {"decl-block", "decl-name"} -> "decl-value"
      [] t = "!" /\ c = "decl-value" -> "decl-prio"
      [] t \in {"func", "expression("} /\ c \in {"decl-value", "func-arg"} -> "func-arg"
      [] t = "rgb(" /\ c = "decl-value" -> "rgb-arg"
      [] t = "hsl(" /\ c = "decl-value" -> "hsl-arg"
      [] t = "," /\ c = "var-arg" -> "var-fallback"
      [] t = "var(" /\ c = "var-fallback" -> "var-arg"
      [] t = "var(" /\ c = "decl-value" -> "var-arg"
      [] t = "calc(" /\ c = "decl-value" -> "calc-arg"
      [] t = "url(" -> "url-open"
      [] t = ")" /\ c \in {"func-arg", "rgb-arg", "hsl-arg", "var-arg", "var-fallback", "calc-arg", "url-open"} -> "decl-value"
      [] t = ")" /\ c \in {"pseudo-arg", "not-arg"} -> "selector"
      [] t = "[" /\ c \in {"selector", "sheet", "not-arg"} -> "attrib"
      [] t = "]" /\ c = "attrib" -> "selector"
      [] t = "not(" /\ c \in {"selector", "sheet"} -> "not-arg"
      [] t = "nth-child(" /\ c \in {"selector", "sheet"} -> "pseudo-arg"
      [] t = "(" -> "paren"
      [] t = "@import" /\ c = "sheet" -> "import-prelude"
      [] t = "@namespace" /\ c = "sheet" -> "namespace-prelude"
      [] t = "@media" /\ c \in {"sheet", "media-rules"} -> "media-prelude"
      [] t = "@page" /\ c \in {"sheet", "media-rules"} -> "page-prelude"
      [] t = "@x" /\ c \in {"sheet", "media-rules"} -> "unknown-prelude"
      [] t \in {"@charset-sp", "@charset"} /\ c = "sheet" -> "after-charset"
      [] t \in {"ident", "hash", "*", ".", "nonascii"} /\ c = "sheet" -> "selector"
      [] t = "ident" /\ c = "decl-block" -> "decl-name"
      [] OTHER -> c
ShiftTotal == \A c \in Contexts, t \in Tokens : Shift(c, t) \in Contexts

\* how each context is entered from the start of a sheet (prefix text id, rendered by the adapter)
Seqs(n) == UNION {[1..k -> Tokens] : k \in 0..n}
SmallTokens == {"ident", "func", "url(", "var(", "rgb(", "hsl(", "percentage", "@import", "@media", "@x", "string", "number", "{", "}", "(", ")", "[", ";", ":", ",", "!",
                "open-string", "open-comment", "bs", "cdo", "S"}
Entries == {"string", "bytes", "style"}
Options == {[comments |-> c, validate |-> v] : c \in BOOLEAN, v \in BOOLEAN}
TokRows == {[kind |-> "tokens", ctx |-> c, toks |-> s, entry |-> "string"] : c \in Contexts \ {"style-attr"}, s \in Seqs(1)}
           \cup {[kind |-> "tokens", ctx |-> c, toks |-> s, entry |-> "string"] : c \in PairContexts,
                   s \in {x \in [1..2 -> Tokens] : MaxToks >= 2 /\ (x[1] \in SmallTokens \/ (MaxToks >= 3 /\ x[2] \in SmallTokens))}}
           \cup {[kind |-> "tokens", ctx |-> "sheet", toks |-> s, entry |-> "string"] : s \in {x \in [1..3 -> SmallTokens] : MaxToks >= 3}}
           \cup {[kind |-> "tokens", ctx |-> "style-attr", toks |-> s, entry |-> "style"] : s \in Seqs(2)}
Openers == {"{", "(", "[", "func", "func-comma", "calc(", "calc-sum", "not(", "@media", "@media-rule", "@x-block", "url(", "rgb(", "hsl(", "var(", "var-fallback", "paren-in-selector",
            "attr-in-not", "string-in-func", "comment"}
NestRows == {[kind |-> "nest", opener |-> o, depth |-> d, ctx |-> c, close |-> cl, entry |-> "string"] :
                o \in Openers, d \in Depths, c \in {"sheet", "decl-value", "selector", "media-rules"}, cl \in BOOLEAN}
Graphs == {"none", "chain3", "diamond", "self-loop", "two-cycle", "missing"}
FetchKinds == {"content", "none", "nonepair", "nothing", "bytes-bom", "bytes-charset"}
ConfigRows == {[kind |-> "config", entry |-> e, graph |-> g, fetch |-> f, text |-> t] :
                  e \in Entries, g \in Graphs, f \in FetchKinds, t \in {"plain", "malformed", "truncated-charset", "bom", "charset-rule", "empty"}}
              \* byte strings with every BOM; the first character after it has a zero low byte and a zero high byte in turn
              \cup {[kind |-> "config", entry |-> "bytes", graph |-> "none", fetch |-> "content", text |-> t] :
                       t \in {"bom-utf-16-le", "bom-utf-16-be", "bom-utf-32-le", "bom-utf-32-be", "bom-utf-16-le-lowzero", "bom-utf-16-be-lowzero",
                              "bom-utf-32-le-lowzero", "bom-utf-8-lowzero"}}
\* @charset naming a codec that exists in Python but is no text encoding (as text: byte strings with such a rule are not
\* "decodable under the encoding that applies"); a fetcher / an imported byte string that names an unknown or non-text encoding
BadFetchKinds == {"bad-encoding", "enc-hex", "enc-rot13", "enc-css", "bytes-charset-hex", "bytes-charset-rot13", "bytes-charset-css",
                  "bytes-charset-unknown", "bytes-charset-undefined", "bytes-undecodable", "text-enc-no-such-encoding", "text-enc-undefined",
                  "text-enc-hex", "enc-undefined"}
CodecRows == {[kind |-> "config", entry |-> "string", graph |-> "none", fetch |-> "content", text |-> t] :
                 t \in {"charset-hex", "charset-css", "charset-rot13", "charset-unknown", "charset-undefined",
                        \* variables that refer to themselves or to each other; a lone surrogate (literal, escaped) with and without @charset
                        "variables-self", "variables-cycle", "variables-cycle-unused", "surrogate-escape", "surrogate-literal", "surrogate-ascii-charset",
                        "surrogate-in-selector"}}
             \cup {[kind |-> "config", entry |-> "string", graph |-> g, fetch |-> f, text |-> "plain"] : g \in {"chain3", "diamond"}, f \in BadFetchKinds}
\* one declaration per known property name (read from the repository: NAMES_FILE) with a value built to make a backtracking
\* matcher work hard: validation is part of "parsing returns in bounded time"
PropNames == IF "NAMES_FILE" \in DOMAIN IOEnv THEN ndJsonDeserialize(IOEnv.NAMES_FILE) ELSE <<>>
BombRows == {[kind |-> "propvalue", name |-> PropNames[i].name, shape |-> sh, entry |-> "string"] :
                i \in 1..Len(PropNames), sh \in {"long-ident-then-number", "many-idents", "many-numbers-then-ident", "many-strings-then-number", "nested-functions"}}
\* selector soup: every glued sequence of 3..5 of the tokens that make up (namespaced) simple selectors - '*|*|*' once made the
\* selector parser split a name of three parts in two
SelToks == {"*", "|", "ident", ".", ":"}
SelSoupRows == {[kind |-> "tokens", ctx |-> c, toks |-> s, entry |-> "string", glue |-> TRUE] :
                   c \in {"sheet", "not-arg"}, s \in UNION {[1..k -> SelToks] : k \in 3..MaxSelSoup}}
\* long runs: a token opener followed by n characters of one class and an end that makes the token's regular expression fail late
\* (nothing, a line break and a rule, junk) or succeed (the closer) - matchers that backtrack exponentially on a failing match
\* show only here
RunOpeners == {"url(", "url-dq", "url-sq", "dq", "sq", "comment", "ident", "hash", "number", "at", "func", "urange", "cdo", "attr-dq", "important", "bs"}
RunBodies == {"letters", "digits", "spaces", "bs-pairs", "stars", "escaped-quotes", "nonascii", "hex-escapes", "dashes", "nl-escapes", "slashes", "dots",
              \* hex escapes that START with a letter digit, in both cases (the escape macro must not read them as simple escapes too)
              "hex-letter-upper", "hex-letter-mixed"}
RunEnds == {"eof", "newline-rule", "closer", "junk"}
LongRunRows == {[kind |-> "longrun", opener |-> o, body |-> b, n |-> n, end |-> e, ctx |-> c, entry |-> "string"] :
                   o \in RunOpeners, b \in RunBodies, n \in RunLens, e \in RunEnds, c \in {"sheet", "decl-value"}}
\* literals longer than the interpreter's integer-string limit (4300 digits), an environment bound like the recursion depth
LimitRows == {[kind |-> "longrun", opener |-> o, body |-> "digits", n |-> 5000, end |-> e, ctx |-> "decl-value", entry |-> "string"] :
                 o \in {"number", "hash", "ident", "func", "urange"}, e \in {"closer", "eof"}}
\* width instead of depth: lists of WideLen items at every place where the grammar has a list (a flat list must not cost
\* recursion depth - the generators that skip white space in values once nested as deep as the value was long)
WideKinds == {"value-space", "value-comma", "value-slash", "selector-list", "compound-selector", "descendants", "media-list", "import-media",
              "declarations", "rules", "function-args", "media-rules", "margin-boxes", "variables", "comments", "namespaces", "imports"}
WideRows == {[kind |-> "wide", what |-> w, n |-> n, entry |-> "string"] : w \in WideKinds, n \in WideLens}
Rows == TokRows \cup NestRows \cup ConfigRows \cup CodecRows \cup BombRows \cup SelSoupRows \cup LongRunRows \cup LimitRows \cup WideRows
Init == row \in Rows
Next == UNCHANGED row
Spec == Init /\ [][Next]_row
EmitRow == PrintT(<<"ROW", ToJson(row)>>)
=============================================================================
