-------------------------- MODULE VarBlockContract --------------------------
(***************************************************************************)
(* C10, second half: a variables declaration block                         *)
(* (cssutils.css.CSSVariablesDeclaration) is a map from normalised         *)
(* variable names to values; its serialisation always lists exactly the    *)
(* variables the API reports.  The order of the variables is not part of   *)
(* the contract, so abstract states are compared as sets of pairs.         *)
(***************************************************************************)
EXTENDS Naturals, Sequences, FiniteSets, TLC, SequencesExt, Json

DOMExc == {"SyntaxErr", "HierarchyRequestErr", "NamespaceErr", "IndexSizeErr",
           "InvalidModificationErr", "NoModificationAllowedErr", "NotFoundErr",
           "InvalidCharacterErr", "InvalidStateErr", "InvalidAccessErr"}

VNorm(l) == CASE l \in {"x", "X", "~x"} -> "x"
              [] l \in {"y", "Y", "~y"} -> "y"
              [] l \in {"zz", "ZZ", "Zz"} -> "zz"
              [] OTHER -> l
BadValue == "#bad"

Pairs(list) == {<<list[i].name, list[i].value>> : i \in 1..Len(list)}
NamesOf(list) == {list[i].name : i \in 1..Len(list)}
Lookup(list, n) == IF n \in NamesOf(list) THEN (CHOOSE p \in Pairs(list) : p[1] = n)[2] ELSE ""
Functional(list) == \A i, j \in 1..Len(list) : list[i].name = list[j].name => i = j

\* ---- reference semantics (deterministic, order-preserving; only Pairs() is compared) -------------
Idx(list, n) == CHOOSE i \in 1..Len(list) : list[i].name = n
RefSetVar(list, l, v) ==
    IF v = BadValue THEN [list |-> list, out |-> "SyntaxErr", ret |-> ""]
    ELSE IF VNorm(l) \in NamesOf(list)
         THEN [list |-> [list EXCEPT ![Idx(list, VNorm(l))].value = v], out |-> "ok", ret |-> ""]
         ELSE [list |-> Append(list, [name |-> VNorm(l), value |-> v]), out |-> "ok", ret |-> ""]
RefRemoveVar(list, l) ==
    [list |-> SelectSeq(list, LAMBDA e : e.name # VNorm(l)), out |-> "ok", ret |-> Lookup(list, VNorm(l))]
RECURSIVE Denote(_, _)
Denote(ds, acc) == IF ds = <<>> THEN acc
                   ELSE Denote(Tail(ds), RefSetVar(acc, ds[1].lit, ds[1].value).list)
WellformedDecls(ds) == \A i \in 1..Len(ds) : ds[i].value # BadValue
RefSetText(list, ds) == IF WellformedDecls(ds) THEN [list |-> Denote(ds, <<>>), out |-> "ok", ret |-> ""]
                        ELSE [list |-> list, out |-> "SyntaxErr", ret |-> ""]
Ref(list, a) == CASE a.op \in {"setvar", "setitem"} -> RefSetVar(list, a.lit, a.value)
                  [] a.op \in {"removevar", "delitem"} -> RefRemoveVar(list, a.lit)
                  [] a.op = "settext" -> RefSetText(list, a.decls)
IsBad(a) == CASE a.op \in {"setvar", "setitem"} -> a.value = BadValue
              [] a.op = "settext" -> ~WellformedDecls(a.decls)
              [] OTHER -> FALSE

FirstFailing(list, a, res) ==
    IF res.out \in DOMExc THEN (IF Pairs(res.list) = Pairs(list) THEN "ok" ELSE "RejectedUnchanged")
    ELSE IF IsBad(a) THEN "ok"
    ELSE IF res.out # "ok" THEN "UnexpectedOutcome"
    ELSE IF Pairs(res.list) # Pairs(Ref(list, a).list) THEN "MapAsModel"
    ELSE IF a.op = "removevar" /\ res.ret # Ref(list, a).ret THEN "RemoveReturnsValue"
    ELSE "ok"

NoDup(s) == \A i, j \in 1..Len(s) : i # j => s[i] # s[j]
ViewClause(o) ==
    IF ~Functional(o.list) THEN "OneValuePerName"
    ELSE IF ~(NoDup(o.keys) /\ Range(o.keys) = NamesOf(o.list)) THEN "KeysAreTheNames"
    ELSE IF o.length # Len(o.keys) THEN "LengthCountsNames"
    ELSE IF o.items # o.keys THEN "ItemAgreesWithKeys"
    ELSE IF o.iter # o.keys THEN "IterationAgreesWithKeys"
    ELSE IF \E i \in 1..Len(o.probes) : o.probes[i].has # (VNorm(o.probes[i].q) \in NamesOf(o.list)) THEN "Membership"
    ELSE IF \E i \in 1..Len(o.probes) : o.probes[i].value # Lookup(o.list, VNorm(o.probes[i].q)) THEN "ValueLookup"
    ELSE IF ~Functional(o.reparsed) \/ Pairs(o.reparsed) # Pairs(o.list) THEN "TextListsExactlyTheVariables"
    ELSE "ok"
=============================================================================
