---------------------------- MODULE SelListTrace ----------------------------
EXTENDS SelectorContract, IOUtils
VARIABLES tid, l, bad
Traces == ndJsonDeserialize(IOEnv.TRACE_FILE)
StepClause(pre, ev) == ListFailing(pre.list, ev.a, ev.out, ev.post.list)
StateClause(o) == ListViewFailing(o)
INSTANCE Monitor
=============================================================================
