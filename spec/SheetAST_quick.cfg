SPECIFICATION Spec
CONSTANTS
  MaxComps = 3
  MaxDecls = 3
  MaxStmts = 3
  Full3 = FALSE
  Emit = TRUE
INVARIANT AlwaysWellOrdered
INVARIANT StripIdempotent
INVARIANT EmitRow
