--------------------------- MODULE GlobalsContract ---------------------------
(***************************************************************************)
(* C12: no hidden state.  The library keeps process-wide state:            *)
(*   mode      cssutils.log.raiseExceptions  (raise vs log)                *)
(*   prefs     cssutils.ser.prefs            (a digest of vars(prefs))     *)
(*   profiles  cssutils.profile              (names + verdict digest)      *)
(*   ser       identity of the global serializer object                    *)
(* plus scratch state of the production parser (saved tokens, push-back).  *)
(* A parse call - returned or raised - must leave mode, prefs, profiles    *)
(* and the serializer as they were when it started; the result of the      *)
(* fixed probe battery must equal what a fresh process (with the same      *)
(* explicitly set mode and preferences) returns.                           *)
(***************************************************************************)
EXTENDS Naturals, Sequences, FiniteSets, TLC, Json

ParseOps == {"parse"}
\* ops that are allowed to change exactly one component, to the requested value
StepFailing(pre, a, post) ==
    IF a.op \in {"parse", "combine", "domedit", "serialize", "newparser", "mqedit", "valueedit", "profileaddremove", "profileswitch", "serializeraises", "tokenizer"} THEN
        (IF post.mode # pre.mode THEN "ErrorModeRestored"
         ELSE IF post.prefs # pre.prefs THEN "PreferencesRestored"
         ELSE IF post.profiles # pre.profiles THEN "ProfilesRestored"
         ELSE IF post.ser # pre.ser THEN "SerializerRestored"
         ELSE "ok")
    ELSE IF a.op = "setmode" THEN
        (IF post.mode # a.b THEN "SetModeSets"
         ELSE IF post.prefs # pre.prefs \/ post.profiles # pre.profiles THEN "SetModeTouchesOnlyMode" ELSE "ok")
    ELSE IF a.op = "setpref" THEN
        (IF post.mode # pre.mode \/ post.profiles # pre.profiles THEN "SetPrefTouchesOnlyPrefs" ELSE "ok")
    ELSE IF a.op = "probe" THEN
        (IF post.mode # pre.mode \/ post.prefs # pre.prefs \/ post.profiles # pre.profiles THEN "ProbeIsReadOnly"
         ELSE "ok")
    ELSE "ok"

\* outcomes that do not depend on anything that went before: a profile that is added takes effect for the declarations parsed
\* next (however many validations there were before), a serialisation whose validator raises passes the exception on
OutFailing(a, out) ==
    IF a.op = "profileaddremove" /\ out # "ok" THEN "AddedProfileTakesEffect"
    ELSE IF a.op = "serializeraises" /\ out # "raised" THEN "ValidatorExceptionReachesTheCaller"
    ELSE "ok"

\* a probe event carries the battery's results in this process and in a fresh process with the same mode and
\* preference assignments; a parser object probed twice must answer identically (reuse)
ProbeFailing(ev) ==
    IF ev.a.op # "probe" THEN "ok"
    ELSE IF ev.result # ev.fresh THEN "ProbeAsInFreshProcess"
    ELSE IF ev.reuse1 # ev.reuse2 THEN "ParserReusable"
    ELSE IF ev.domedit # (IF ev.post.mode THEN "raised" ELSE "logged") THEN "DomEditFollowsErrorMode"
    ELSE "ok"
=============================================================================
