-------------------------- MODULE ProfilesContract --------------------------
(***************************************************************************)
(* C14: the validation-profile registry (cssutils.profiles.Profiles).      *)
(* Its observable behaviour must be a function F of its CONTENTS - the     *)
(* sequence of registered profiles - and not of the history that produced  *)
(* them.  F is the semantics a freshly built registry has: every property  *)
(* pattern of every registered profile is expanded in the macro            *)
(* environment  base (+) macros(p1) (+) ... (+) macros(pn)  (registration  *)
(* order, later definitions win).                                          *)
(*                                                                         *)
(* Abstract profiles: "B" = the built-in profiles; P1..P4 custom profiles  *)
(* whose macros shadow a general macro (integer), a macro of a built-in    *)
(* profile (absolute-size), or introduce a new one (mynew).  The adapter   *)
(* uses literal-string macro bodies, so the set of accepted probe literals *)
(* identifies the macro version a property is compiled with.               *)
(***************************************************************************)
EXTENDS Naturals, Sequences, FiniteSets, TLC, SequencesExt, Json

\* P1x: a profile registered under P1's name with P1's properties but WITHOUT macros of its own
\* P5 redefines a TOKEN-level macro (uri), which the built-in profiles use as well
\* P6 has a property that is validated by a FUNCTION instead of a pattern (nothing to expand; it must survive every re-expansion)
Custom == {"P1", "P2", "P3", "P4", "P1x", "P5", "P6"}
Base(p) == IF p = "P1x" THEN "P1" ELSE p
\* macros defined by each profile: macro name -> literal accepted by that version
MacrosOf(p) == CASE p = "P1" -> [integer |-> "p1i", mynew |-> "p1n"]
                 [] p = "P2" -> [integer |-> "p2i", absolute_size |-> "p2s"]
                 [] p = "P3" -> [mynew |-> "p3n"]
                 [] p = "P5" -> [uri |-> "p5u"]
                 [] p = "B"  -> [absolute_size |-> "xx-large"]
                 [] OTHER    -> [none |-> "none"]
BaseLit(m) == CASE m = "integer" -> "7" [] m = "uri" -> "url(x)" [] OTHER -> "undefined"
Defines(p, m) == m \in DOMAIN MacrosOf(p)
\* the macro environment of a registry: the last registered definition wins, else the base definition
EnvLit(names, m) ==
    LET ds == {i \in 1..Len(names) : Defines(names[i], m)}
    IN  IF ds = {} THEN BaseLit(m) ELSE MacrosOf(names[CHOOSE i \in ds : \A j \in ds : j <= i])[m]

\* probes: id -> [owner profile, macro used]   (B.z is also redefined by P4 with the literal pattern "p4z")
ProbeIds == {"P1.a", "P1.b", "P2.a", "P2.c", "P3.b", "P3.a", "P4.a", "P5.a", "P6.f", "B.z", "B.fs", "B.bg", "B.color", "none"}
Owner(id) == CASE id \in {"P1.a", "P1.b"} -> "P1" [] id \in {"P2.a", "P2.c"} -> "P2" [] id \in {"P3.a", "P3.b"} -> "P3"
               [] id = "P4.a" -> "P4" [] id = "P5.a" -> "P5" [] id = "P6.f" -> "P6" [] id \in {"B.z", "B.fs", "B.bg", "B.color"} -> "B" [] OTHER -> "nobody"
MacroOf(id) == CASE id \in {"P1.a", "P2.a", "P3.a", "P4.a", "B.z"} -> "integer"
                 [] id \in {"P1.b", "P3.b"} -> "mynew"
                 [] id \in {"P2.c", "B.fs"} -> "absolute_size"
                 [] id \in {"P5.a", "B.bg"} -> "uri"
                 [] OTHER -> "nomacro"
Registered(names, p) == \E n \in Range(names) : Base(n) = p
\* F: the set of probe literals a registry with these contents accepts for each probe
F(names, id) ==
    IF id = "none" THEN {}
    ELSE IF id = "B.color" THEN (IF Registered(names, "B") THEN {"red"} ELSE {})
    ELSE IF id = "P6.f" THEN (IF Registered(names, "P6") THEN {"p6f"} ELSE {})
    ELSE IF id = "P1.b" /\ "P1x" \in Range(names) THEN {"p1x"}          \* the macro-less variant spells this pattern out
    ELSE (IF Registered(names, Owner(id)) THEN {EnvLit(names, MacroOf(id))} ELSE {})
         \cup (IF id = "B.z" /\ Registered(names, "P4") THEN {"p4z"} ELSE {})
PropsOf(p) == CASE p \in {"P1", "P1x"} -> {"p1-a", "p1-b"} [] p = "P2" -> {"p2-a", "p2-c"} [] p = "P3" -> {"p3-a", "p3-b"}
                [] p = "P4" -> {"p4-a", "z-index"} [] p = "P5" -> {"p5-a"} [] p = "P6" -> {"p6-f"} [] p = "B" -> {"z-index", "font-size", "color", "background-image"} [] OTHER -> {}
Known(names) == UNION {PropsOf(p) : p \in Range(names)}

\* ---- reference semantics on contents ----------------------------------------------------------
Ref(s, a) ==
    CASE a.op = "add"        -> [names |-> Append(s.names, a.p), defaults |-> s.defaults, out |-> "ok"]
      [] a.op = "addbatch"   -> [names |-> s.names \o a.ps, defaults |-> s.defaults, out |-> "ok"]
      [] a.op = "addbuiltin" -> [names |-> Append(s.names, "B"), defaults |-> s.defaults, out |-> "ok"]
      [] a.op = "remove"     -> IF a.p \in Range(s.names)
                                THEN [names |-> SelectSeq(s.names, LAMBDA x : x # a.p), defaults |-> s.defaults, out |-> "ok"]
                                ELSE [names |-> s.names, defaults |-> s.defaults, out |-> "NoSuchProfile"]
      [] a.op = "removeall"  -> [names |-> <<>>, defaults |-> s.defaults, out |-> "ok"]
      [] a.op = "setdefaults" -> [names |-> s.names, defaults |-> a.d, out |-> "ok"]

StepFailing(pre, a, out, post) ==
    IF out # Ref(pre, a).out THEN (IF Ref(pre, a).out = "NoSuchProfile" THEN "UnknownProfileRejected" ELSE "UnexpectedOutcome")
    ELSE IF post.names # Ref(pre, a).names THEN "ContentsAsRequested"
    ELSE IF post.defaults # Ref(pre, a).defaults THEN "DefaultsAsRequested"
    ELSE "ok"

\* which registered profile accepts a probe literal; "matching" = accepted by one of the DEFAULT profiles (all, when none is set)
AcceptedBy(names, id, lit) ==
    IF id = "B.z" THEN (IF Registered(names, "B") /\ lit = EnvLit(names, "integer") THEN {"B"} ELSE {})
                       \cup (IF Registered(names, "P4") /\ lit = "p4z" THEN {"P4"} ELSE {})
    ELSE IF lit \in F(names, id) THEN {Owner(id)} ELSE {}
Matching(o, id, lit) == o.defaults = "none" \/ Base(o.defaults) \in AcceptedBy(o.names, id, lit)

\* ---- the observation is a function of the contents -------------------------------------------------
StateFailing(o) ==
    IF \E i \in 1..Len(o.versions) : ToSet(o.versions[i].accepted) # F(o.names, o.versions[i].id) THEN "VerdictsAreFunctionOfContents"
    ELSE IF ToSet(o.known) # Known(o.names) THEN "KnownNamesAreFunctionOfContents"
    ELSE IF \E i \in 1..Len(o.byprofile) : ToSet(o.byprofile[i].props) # PropsOf(o.byprofile[i].p) THEN "PropertiesByProfile"
    ELSE IF ~o.validateAgree THEN "ValidIffSomeProfileAccepts"
    ELSE IF \E i \in 1..Len(o.explicit) : LET e == o.explicit[i] IN
                e.out # "ok" \/ ~e.same \/ e.valid # (AcceptedBy(o.names, e.id, e.lit) # {}) \/ e.m # (Base(e.q) \in AcceptedBy(o.names, e.id, e.lit))
         THEN "ExplicitProfilesArgumentSelectsThoseProfiles"
    ELSE IF \E i \in 1..Len(o.matching) : o.matching[i].m # Matching(o, o.matching[i].id, o.matching[i].lit) THEN "MatchingFollowsTheDefaultProfiles"
    ELSE "ok"
=============================================================================
