---------------------------- MODULE NsParseTrace ----------------------------
EXTENDS NamespacesContract, IOUtils
VARIABLES tid, l, bad
Traces == ndJsonDeserialize(IOEnv.TRACE_FILE)
StepClause(pre, ev) == NsParseFailing(ev.a, ev.post)
StateClause(o) == "ok"
INSTANCE Monitor
=============================================================================
