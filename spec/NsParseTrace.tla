---------------------------- MODULE NsParseTrace ----------------------------
EXTENDS NamespacesContract, IOUtils
VARIABLES tid, l, bad
Traces == ndJsonDeserialize(IOEnv.TRACE_FILE)
StepClause(pre, ev) == IF ev.a.kind = "nsdupes" THEN NsDupesFailing(ev.a, ev.post) ELSE NsParseFailing(ev.a, ev.post)
StateClause(o) == "ok"
INSTANCE Monitor
=============================================================================
