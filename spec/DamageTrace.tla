----------------------------- MODULE DamageTrace -----------------------------
EXTENDS DamageContract, IOUtils
VARIABLES tid, l, bad
Traces == ndJsonDeserialize(IOEnv.TRACE_FILE)
StepClause(pre, ev) == IF ev.a.kind = "damage" THEN DamageFailing(ev.a, ev.post) ELSE TruncFailing(ev.a, ev.post)
StateClause(o) == "ok"
INSTANCE Monitor
=============================================================================
