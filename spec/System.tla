------------------------------- MODULE System -------------------------------
(* Machine explored by TLC for the composition (SystemContract): histories of edits that reach *)
(* one of five components of one sheet - two declaration blocks (one nested in an @media       *)
(* rule), the @media rule's media list and the two selector texts.  Every step is the          *)
(* component machine's own reference step (D!Ref, M!Ref) lifted to the product by RefStep.     *)
EXTENDS SystemContract
CONSTANTS Lits, Values, Prios, Queries, Sels, MaxLen, MaxHist
CONSTANT Emit
VARIABLES st, hist
vars == <<st, hist>>

DeclAlphabet ==
    {[op |-> o, lit |-> l, value |-> v, prio |-> p] : o \in {"set", "add"}, l \in Lits, v \in Values \cup {D!BadValue}, p \in Prios}
    \cup {[op |-> "remove", lit |-> l] : l \in Lits}
    \cup {[op |-> "settext", decls |-> ds] : ds \in {<<>>} \cup {<<[lit |-> l, value |-> v, prio |-> ""]>> : l \in Lits, v \in {"red", D!BadValue}}}
QB == Queries \cup {"#bad:dangling-and"}
MediaAlphabet ==
    {[op |-> "settext", qs |-> t, comment |-> FALSE] : t \in {<<>>} \cup {<<q>> : q \in QB} \cup {<<p, q>> : p \in Queries, q \in QB}}
    \cup {[op |-> "append", q |-> q] : q \in QB}
    \cup {[op |-> "delete", q |-> q] : q \in {q \in Queries : M!Simple(M!CanonQ(q))} \cup {"tty"}}
SelAlphabet == {[op |-> "selector", sel |-> s] : s \in Sels \cup {BadSel}}
Alphabet == {[target |-> t, a |-> a] : t \in {"d1", "d2"}, a \in DeclAlphabet}
            \cup {[target |-> "ml", a |-> a] : a \in MediaAlphabet}
            \cup {[target |-> t, a |-> a] : t \in {"s1", "s2"}, a \in SelAlphabet}

Act(e) == /\ Len(hist) < MaxHist
          /\ (e.target = "ml" => ~M!Silent(st.ml, e.a))
          /\ st' = RefStep(st, e.target, e.a).st
          /\ hist' = Append(hist, e)
          /\ (Emit => PrintT(<<"HIST", ToJson([h |-> Append(hist, e), s |-> st])>>))
EditBlock1 == \E e \in {x \in Alphabet : x.target = "d1"} : Act(e)
EditBlock2 == \E e \in {x \in Alphabet : x.target = "d2"} : Act(e)
EditMedia  == \E e \in {x \in Alphabet : x.target = "ml"} : Act(e)
EditSel    == \E e \in {x \in Alphabet : x.target \in {"s1", "s2"}} : Act(e)
Init == st = [d1 |-> <<>>, d2 |-> <<>>, ml |-> <<>>, s1 |-> "a", s2 |-> "b"] /\ hist = <<>>
Next == EditBlock1 \/ EditBlock2 \/ EditMedia \/ EditSel
Spec == Init /\ [][Next]_vars
Bounded == Len(st.d1) <= MaxLen /\ Len(st.d2) <= MaxLen /\ Len(st.ml) <= MaxLen
View == st

\* ---- design-level properties of the composition -------------------------------------------------
Last == hist'[Len(hist')]
\* a step changes at most the component it targets
FrameHolds == [][\A c \in Targets : c # Last.target => st'[c] = st[c]]_vars
\* a rejected step changes nothing at all
RejectedUnchanged == [][RefStep(st, Last.target, Last.a).out \in DOMExc => st' = st]_vars
\* the lifted reference step is accepted by the component contract it was lifted from
RefAccepted ==
    [][LET e == Last  r == RefStep(st, e.target, e.a)
           obs(s) == [d1 |-> [list |-> s.d1, text |-> ""], d2 |-> [list |-> s.d2, text |-> ""], ml |-> [list |-> s.ml, text |-> ""],
                      s1 |-> s.s1, s2 |-> s.s2, sheettext |-> ""]
       IN  StepClause(obs(st), [target |-> e.target, a |-> e.a, out |-> r.out, ret |-> (IF e.target \in {"d1", "d2"} THEN D!Ref(st[e.target], e.a).ret ELSE ""),
                                post |-> obs(st')]) = "ok"]_vars
\* components keep their own invariants inside the composition
BlocksImportantWins == \A c \in {"d1", "d2"} : \A n \in D!NamesOf(st[c]) :
                          (\E i \in D!Idx(st[c], n) : st[c][i].prio # "") => st[c][D!Eff(st[c], n)].prio # ""
MediaCanonical == M!Canonical(st.ml)

EmitWalk == Len(hist) = MaxHist => PrintT(<<"WALK", ToJson(hist)>>)
EmitAlphabet == hist = <<>> => PrintT(<<"ALPHABET", ToJson(Alphabet)>>)
=============================================================================
