----------------------------- MODULE CodecTrace -----------------------------
EXTENDS CodecContract, IOUtils
VARIABLES tid, l, bad
Traces == ndJsonDeserialize(IOEnv.TRACE_FILE)
StepClause(pre, ev) == CASE ev.a.kind = "detect" -> DetectFailing(ev.a, ev.post)
                         [] ev.a.kind = "charset" -> CharsetFailing(ev.a, ev.post)
                         [] ev.a.kind = "roundtrip" -> RoundTripFailing(ev.a, ev.post)
                         [] ev.a.kind = "chunk" -> ChunkFailing(ev.a, ev.post)
StateClause(o) == "ok"
INSTANCE Monitor
=============================================================================
