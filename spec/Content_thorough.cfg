SPECIFICATION Spec
CONSTANTS
  MaxLen = 3
INVARIANT QuoteLossless
INVARIANT EmitRow
