SPECIFICATION Spec
CONSTANTS
  MaxSelSoup = 5
  RunLens = {40, 300}
  WideLens = {1200}
  MaxToks = 2
  Depths = {1, 2, 3, 5, 8, 12, 20, 50, 100}
  PairContexts = {"sheet", "decl-block", "decl-value", "selector", "media-rules", "import-prelude", "func-arg", "media-prelude", "page-block", "after-charset"}
INVARIANT ShiftTotal
INVARIANT EmitRow
