SPECIFICATION Spec
CONSTANTS
  Emit = FALSE
  Lits = {"x", "X", "~x", "y"}
  Values = {"1", "red"}
  MaxLen = 3
  MaxHist = 4
CONSTRAINT Bounded
VIEW View
INVARIANT MapDiscipline
PROPERTY SetThenGet
PROPERTY RemoveThenAbsent
PROPERTY RejectedUnchanged
PROPERTY RefAccepted
