------------------------------ MODULE EncChain ------------------------------
(* Enumerates import chains and escape cases for C08; checks on the table that an override really governs      *)
(* every level and that without any information the answer is UTF-8.                                            *)
EXTENDS EncChainContract
CONSTANT Depth2, Depth3     \* how many depth-2 / depth-3 combinations (booleans: include them?)
VARIABLE row
\* bom16: the UTF-16 little-endian byte-order mark in front of a first character whose low byte is zero
Marks == {"none", "bom", "bom16", "cs:iso-8859-5", "cs:koi8-r"}
Nodes == {[http |-> h, mark |-> m, text |-> t, fetch |-> f] :
             h \in {"none", "iso-8859-1", "koi8-r"}, m \in Marks, t \in BOOLEAN, f \in {"data", "none", "nonepair"}}
\* (a BOM in bytes that the transport declares to be something else: the transport charset still wins; such nodes are last in their chain)
Sensible(n, override) == /\ (n.mark = "bom" => override = "none" /\ ~n.text)
                         /\ (n.mark = "bom16" => override = "none" /\ ~n.text /\ n.http = "none")
                         /\ (n.fetch # "data" => n.http = "none" /\ n.mark = "none" /\ ~n.text)
\* upper:x - the root starts with '@CHARSET "x";': not written exactly, so it is no @charset rule at all
Roots == {[override |-> o, mark |-> m, text |-> t] : o \in {"none", "iso-8859-5"}, m \in {"none", "cs:koi8-r", "cs:iso-8859-1"}, t \in BOOLEAN}
         \cup {[override |-> "none", mark |-> "upper:iso-8859-1", text |-> t] : t \in BOOLEAN}
\* (first levels of longer chains; delivered as bytes or as text - a text whose @charset disagrees with its transport charset included)
SmallNodes == {n \in Nodes : n.http \in {"none", "koi8-r"} /\ n.mark \in {"none", "cs:iso-8859-5"} /\ (n.text => n.fetch = "data")}
OkNodes(r) == {x \in Nodes : Sensible(x, r.override)}
OkSmall(r) == {x \in SmallNodes : Sensible(x, r.override)}
ChainRows ==
    UNION {{[kind |-> "chain", root |-> r, chain |-> <<n>>] : n \in OkNodes(r)} : r \in Roots}
    \cup (IF Depth2 THEN UNION {{[kind |-> "chain", root |-> r, chain |-> <<a, b>>] : a \in OkSmall(r), b \in OkNodes(r)} : r \in Roots} ELSE {})
    \cup (IF Depth3 THEN UNION {{[kind |-> "chain", root |-> r, chain |-> <<a, b, c>>] : a \in OkSmall(r), b \in OkSmall(r), c \in OkSmall(r)} :
                                   r \in {x \in Roots : x.text = FALSE}} ELSE {})
Chars == {<<233>>, <<1103>>, <<8364>>, <<20013>>, <<128512>>, <<233, 66>>}    \* e-acute, ya, euro, CJK, astral, e-acute followed by 'B'
EscapeRows == {[kind |-> "escape", target |-> t, cps |-> c, pos |-> p] :
                  t \in {"ascii", "iso-8859-1", "koi8-r", "cp1252", "utf-8", "utf-16"}, c \in Chars,
                  p \in {"class", "string", "url", "comment", "value-ident"}}
              \* a code point that needs all six hex digits, followed by a space that is content
              \cup {[kind |-> "escape", target |-> t, cps |-> <<1114109, 32, 66>>, pos |-> p] :
                  t \in {"ascii", "iso-8859-1", "cp1252", "utf-8"}, p \in {"string", "comment"}}
              \* a lone surrogate (written in the source as the escape \d800) cannot be encoded by any target, UTF ones included
              \cup {[kind |-> "escape", target |-> t, cps |-> <<55296>>, pos |-> p] :
                  t \in {"ascii", "iso-8859-1", "utf-8", "utf-16", "utf-32"}, p \in {"class", "string", "url", "value-ident"}}
\* histories: parse, then change the encoding of the root or of the imported sheet, then add a new @import to it
EditRows == {[kind |-> "edit", root |-> r, chain |-> <<n>>, target |-> t, newenc |-> e, newnode |-> m, how |-> h] :
                r \in {x \in Roots : x.override = "none"}, n \in {x \in SmallNodes : x.fetch = "data"}, t \in {"root", "child"},
                e \in {"koi8-r", "iso-8859-5", "utf-8", "none"}, m \in {x \in SmallNodes : x.fetch = "data"},
                \* text-upper / text-ws: the @import added as text is spelled @IMPORT / preceded by white space (pure ASCII target: only the
                \* reported encoding can tell); rejected-charset: an assignment of an unknown encoding to the @charset rule comes first
                h \in {"text", "object", "settext", "text-upper-ascii", "text-ws-ascii", "text-escaped-ascii", "rejected-charset"}}
Rows == ChainRows \cup EscapeRows \cup EditRows
Init == row \in Rows
Next == UNCHANGED row
Spec == Init /\ [][Next]_row
OverrideGoverns == (row.kind = "chain" /\ row.root.override # "none") => \A i \in 1..Len(row.chain) : Expect(row)[i] = row.root.override
NothingMeansUtf8 == (row.kind = "chain" /\ row.root.override = "none" /\ row.root.mark = "none"
                     /\ \A i \in 1..Len(row.chain) : row.chain[i].http = "none" /\ row.chain[i].mark = "none")
                    => \A i \in 1..Len(row.chain) : Expect(row)[i] = "utf-8"
EmitRow == PrintT(<<"ROW", ToJson(IF row.kind = "chain" THEN row @@ [exp |-> Expect(row)]
                                  ELSE IF row.kind = "edit" THEN row @@ [exp |-> Expect(row), expnew |-> ExpectNew(row)] ELSE row)>>)
=============================================================================
