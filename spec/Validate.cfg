SPECIFICATION Spec
INVARIANT TableNonTrivial
INVARIANT EmitRow
