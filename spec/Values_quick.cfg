SPECIFICATION Spec
CONSTANTS
  Ints <- IntsQuick
  Fracs <- FracsQuick
  Units = {"", "%", "px", "em", "deg", "s"}
  BoundaryHex = {0, 10, 15}
INVARIANT CanonKeepsDenotation
INVARIANT ShorteningLossless
INVARIANT EmitRow
