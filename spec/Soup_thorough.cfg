SPECIFICATION Spec
CONSTANTS
  MaxSelSoup = 5
  RunLens = {25, 40, 300, 3000}
  WideLens = {300, 1200, 5000}
  MaxToks = 3
  Depths = {1, 2, 3, 4, 5, 6, 7, 8, 9, 10, 11, 12, 15, 20, 30, 50, 75, 100}
  PairContexts = {"sheet", "after-charset", "import-prelude", "namespace-prelude", "media-prelude", "media-rules", "page-prelude", "page-block", "fontface-block", "variables-block", "unknown-prelude", "unknown-block", "selector", "attrib", "pseudo-arg", "not-arg", "decl-block", "decl-name", "decl-value", "decl-prio", "func-arg", "rgb-arg", "var-arg", "calc-arg", "url-open", "paren", "bracket", "margin-block"}
INVARIANT ShiftTotal
INVARIANT EmitRow
