SPECIFICATION Spec
CONSTANTS
  Emit = FALSE
  Lits = {"color", "COLOR", "left"}
  Values = {"red", "blue"}
  Prios = {"", "!important"}
  Queries = {"print", "screen", "PRINT"}
  Sels = {"c", "a>b", "a , b"}
  MaxLen = 2
  MaxHist = 4
CONSTRAINT Bounded
VIEW View
INVARIANT BlocksImportantWins
INVARIANT MediaCanonical
PROPERTY FrameHolds
PROPERTY RejectedUnchanged
PROPERTY RefAccepted
