---------------------------- MODULE SheetDOMTrace ----------------------------
EXTENDS SheetDOMContract, IOUtils
VARIABLES tid, l, bad
Traces == ndJsonDeserialize(IOEnv.TRACE_FILE)
StepClause(pre, ev) == StepFailing(pre.rules, ev.a, ev.out, ev.post.rules)
StateClause(o) == StateFailing(o)
INSTANCE Monitor
=============================================================================
