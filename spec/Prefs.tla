------------------------------- MODULE Prefs -------------------------------
(***************************************************************************)
(* C06 generator: (base sheet, preference assignment) rows.                *)
(*   bases        sheets built so that every preference acts on something  *)
(*                (own bases below) + the C02 level sheets of SheetAST     *)
(*   assignments  the default, every preference alone (every non-default   *)
(*                value), all pairs, the minified preset, the preset with  *)
(*                one override, and NRandom full assignments drawn by a    *)
(*                seeded arithmetic hash                                   *)
(* TLC also checks the design lemmas of PrefsContract on every row.        *)
(***************************************************************************)
EXTENDS SheetAST, PrefsContract
CONSTANTS WithPairs, WithLevels, NRandom, Seed
VARIABLE row

Px(n) == <<C("DIMENSION", n)>>
Red == <<C("COLOR_VALUE", "red")>>
Var(n) == C("VARIABLE", n)
Page(s, b, m) == [k |-> "page", sel |-> s, body |-> b, margins |-> m]
Media(q, r) == [k |-> "media", queries |-> q, rules |-> r]
FontFace(b) == [k |-> "fontface", body |-> b]
Ns(p, u) == [k |-> "namespace", prefix |-> p, uri |-> u]
Unknown(t) == [k |-> "unknown", text |-> t]
Import(h, t, q, n) == [k |-> "import", href |-> h, hreftype |-> t, queries |-> q, name |-> n]
Margin(n, b) == [name |-> n, body |-> b]
FF == <<D("font-family", <<C("IDENT", "x")>>, ""), D("src", <<C("URI", "url(x)")>>, "")>>

Base(n, a) == [name |-> n, ast |-> a]
OwnBases == {
  Base("comments", <<Cm("/*c*/"),
        Style(<<"a">>, <<Cm("/*d*/"), D("left", Px("1px"), ""), Cm("/*e*/"), D("color", Red, ""), Cm("/*f*/")>>),
        Media(<<"print">>, <<Cm("/*m*/"), Style(<<"a">>, <<D("left", Px("1px"), ""), Cm("/*d*/")>>)>>),
        Page("", <<Cm("/*d*/"), D("left", Px("1px"), "")>>, <<Margin("@top-left", <<D("left", Px("1px"), ""), Cm("/*e*/")>>)>>),
        FontFace(FF \o <<Cm("/*f*/")>>), Cm("/*z*/")>>),
  Base("comment-joins", <<Style(<<"a /*c*/b", "a/*c*/ b">>, OneDecl), Unknown("@x y /*c*/z;"),
        Media(<<"print">>, <<Style(<<"a /*c*/b">>, OneDecl), Unknown("@x y /*c*/z;")>>)>>),
  Base("only-comments", <<Style(<<"a">>, <<Cm("/*d*/")>>), Media(<<"print">>, <<Cm("/*m*/")>>),
        Media(<<"tv">>, <<Style(<<"a">>, <<Cm("/*d*/")>>)>>), Style(<<".c">>, OneDecl)>>),
  Base("empty-style-media", <<Style(<<"a">>, <<>>), Style(<<"a", ".c">>, OneDecl), Media(<<"print">>, <<>>),
        Media(<<"tv">>, <<Style(<<"a">>, <<>>)>>), Media(<<"print">>, <<Media(<<"tv">>, <<Style(<<"a">>, <<>>)>>), Style(<<".c">>, OneDecl)>>)>>),
  Base("empty-page-fontface", <<Page("", <<>>, <<>>), Style(<<"a">>, OneDecl), FontFace(<<>>), Page(":first", OneDecl, <<Margin("@top-left", <<>>)>>)>>),
  Base("unknown", <<Unknown("@x y;"), Style(<<"a">>, OneDecl), Unknown("@x y { z }"), Media(<<"print">>, <<Unknown("@x y;"), Style(<<"a">>, OneDecl)>>),
        Media(<<"tv">>, <<Unknown("@x y;")>>)>>),
  \* unknown at-rules nested in declaration blocks: a block that holds one is not empty, whatever happens to its comments
  Base("unknown-in-block", <<Style(<<"a">>, <<Cm("/*d*/"), [k |-> "unknown", text |-> "@x y;"], Cm("/*e*/")>>), Style(<<"b">>, <<Cm("/*d*/")>>),
        Style(<<".c">>, <<[k |-> "unknown", text |-> "@x y;"], D("left", Px("1px"), "")>>),
        Media(<<"print">>, <<Style(<<"a">>, <<[k |-> "unknown", text |-> "@x y;"], Cm("/*d*/")>>), Style(<<"b">>, <<Cm("/*e*/")>>)>>),
        Page("", <<[k |-> "unknown", text |-> "@x y;"], D("left", Px("1px"), "")>>, <<>>)>>),
  \* the adapter moves every margin box of this base to another area AFTER parsing (margin = "@bottom-center"): literal keywords must
  \* be those of the rule as it is now
  Base("margin-retargeted", <<Page("", OneDecl, <<Margin("@top-left", OneDecl)>>), Page(":first", <<>>, <<Margin("@top-left", <<D("color", Red, "")>>)>>)>>),
  Base("ns-top", <<Ns("", "d"), Ns("p", "u"), Ns("q", "v"), Style(<<"p|a">>, OneDecl), Style(<<".c">>, OneDecl)>>),
  Base("ns-media", <<Ns("p", "u"), Ns("q", "v"), Media(<<"print">>, <<Style(<<"q|a">>, OneDecl)>>), Style(<<"a">>, OneDecl)>>),
  Base("ns-nested", <<Ns("p", "u"), Ns("q", "v"), Media(<<"print">>, <<Media(<<"tv">>, <<Style(<<"a", "p|a > .c">>, OneDecl)>>)>>)>>),
  Base("ns-not-attr", <<Ns("p", "u"), Ns("q", "v"), Style(<<"a:not(p|b)">>, OneDecl), Media(<<"tv">>, <<Style(<<"[q|b]">>, OneDecl)>>)>>),
  Base("ns-default", <<Ns("", "d"), Ns("p", "u"), Style(<<"a b">>, OneDecl)>>),
  Base("ns-unused", <<Ns("", "d"), Ns("p", "u"), Style(<<".c">>, OneDecl), Style(<<"a">>, <<>>)>>),
  Base("duplicates", <<Style(<<"a">>, <<D("left", Px("1px"), ""), D("left", Px("2px"), "important"), D("color", Red, ""), D("left", Px("3px"), "important"),
                                         Cm("/*d*/"), D("left", Px("4px"), ""), D("color", <<C("COLOR_VALUE", "#abc")>>, "")>>),
        Page("", <<D("left", Px("1px"), "important"), D("left", Px("2px"), "")>>, <<Margin("@top-left", <<D("top", Px("1px"), ""), D("top", Px("2px"), "")>>)>>),
        FontFace(<<D("font-family", <<C("IDENT", "y")>>, "")>> \o FF),
        Media(<<"print">>, <<Style(<<"a">>, <<D("top", Px("1px"), ""), D("top", Px("2px"), "")>>)>>)>>),
  Base("invalid", <<Style(<<"a">>, <<D("left", <<C("IDENT", "solid")>>, ""), D("color", Red, ""), D("x-y", Px("1px"), ""), D("top", Px("1px"), "")>>),
        FontFace(FF \o <<D("left", Px("1px"), "")>>), Page("", <<D("left", Px("1px"), ""), D("color", Px("1px"), "")>>, <<Margin("@top-left", <<D("x-y", Px("1px"), "")>>)>>),
        Style(<<".c">>, <<D("left", <<C("IDENT", "solid")>>, "")>>), Media(<<"print">>, <<Style(<<"a">>, <<D("color", Px("1px"), "")>>)>>),
        Style(<<"#i">>, <<D("left", Px("1px"), ""), D("left", <<C("IDENT", "solid")>>, "")>>),
        Style(<<"a b">>, <<D("top", Px("1px"), ""), D("color", Px("1px"), "")>>)>>),
  Base("imports", <<Import("x.css", "string", <<>>, "none"), Import("y.css", "uri", <<"print">>, "none"), Import("z.css", "string", <<"print", "tv">>, "nm"),
        Import("w.css", "uri", <<>>, "nm"), Style(<<"a">>, OneDecl)>>),
  Base("variables", <<[k |-> "variables", text |-> "@variables { c: red; w: 1px }", vars |-> <<[name |-> "c", value |-> Red], [name |-> "w", value |-> Px("1px")]>>],
        Style(<<"a">>, <<D("color", <<Var("var(c)")>>, ""), D("left", <<Var("var(w)")>>, "important"), D("top", <<Var("var(nope)")>>, ""),
                         D("margin", <<Var("var(w)"), C("DIMENSION", "2px")>>, ""), D("width", <<Var("var(c)")>>, ""),
                         D("right", <<Var("var(w, 2px)")>>, ""), D("bottom", <<Var("var(nope, 2px)")>>, "")>>),
        Page("", <<D("left", <<Var("var(w)")>>, "")>>, <<>>)>>),
  Base("variables-comments", <<[k |-> "variables", text |-> "@variables { /*v*/ c: red; /*w*/ w: 1px }",
                                  vars |-> <<[name |-> "c", value |-> Red], [name |-> "w", value |-> Px("1px")]>>],
        Style(<<"a">>, <<D("color", <<Var("var(c)")>>, ""), D("left", <<Var("var(w)")>>, "")>>)>>),
  Base("specificity-nesting", <<Style(<<"a">>, OneDecl), Style(<<"a.c">>, OneDecl), Style(<<"a.c#i">>, <<D("color", Red, "")>>), Style(<<"b">>, OneDecl),
        Media(<<"print">>, <<Style(<<"a">>, OneDecl), Style(<<"a.c">>, OneDecl)>>)>>),
  Base("variables-twice", <<[k |-> "variables", text |-> "@variables { c: red }", vars |-> <<[name |-> "c", value |-> Red]>>],
        Style(<<"a">>, <<D("color", <<Var("var(c)")>>, "")>>),
        [k |-> "variables", text |-> "@variables { c: 1px; w: 2px }", vars |-> <<[name |-> "c", value |-> Px("1px")], [name |-> "w", value |-> Px("2px")]>>],
        Style(<<".c">>, <<D("left", <<Var("var(c)")>>, ""), D("top", <<Var("var(w)")>>, "")>>)>>),
  Base("variables-upper", <<[k |-> "variables", text |-> "@variables { C: red; w: 1px }", vars |-> <<[name |-> "c", value |-> Red], [name |-> "w", value |-> Px("1px")]>>],
        Style(<<"a">>, <<D("color", <<Var("var(c)")>>, ""), D("left", <<Var("var(w)")>>, ""), D("top", <<Var("var(W)")>>, "")>>)>>),
  Base("spellings", <<[k |-> "charset", enc |-> "utf-8"], Import("x.css", "string", <<>>, "none"), Ns("p", "u"),
        Style(<<"p|a">>, <<D("color", <<C("COLOR_VALUE", "#abc")>>, ""), D("left", Px("0.5px"), "important"), D("top", Px("-0.5em"), ""), D("right", Px("-1.5px"), ""), D("bottom", Px("-12.25em"), ""),
                           D("width", <<C("PERCENTAGE", "0.5%")>>, ""), D("margin", <<C("NUMBER", "0"), C("DIMENSION", "1.5px"), C("DIMENSION", "10px")>>, "")>>),
        Media(<<"print">>, <<Style(<<"a">>, <<D("left", Px("0.25px"), "important")>>)>>),
        Page(":first", <<D("left", Px("0.5px"), "")>>, <<Margin("@top-left", <<D("color", <<C("COLOR_VALUE", "#abc")>>, "important")>>)>>),
        FontFace(FF), Unknown("@x y;")>>),
  Base("layout", <<Import("x.css", "string", <<"print", "tv">>, "nm"), Ns("p", "u"),
        Style(<<"a > b", "a + b", "a ~ b", "p|a > .c">>, <<D("margin", <<C("DIMENSION", "1px"), C("DIMENSION", "2px")>>, ""),
              D("font-family", <<C("STRING", "\"s\""), C("op", ","), C("IDENT", "x")>>, ""), D("content", <<C("STRING", "\"s\""), C("STRING", "\"t\"")>>, "important"),
              D("background", <<C("URI", "url(x)"), C("IDENT", "solid")>>, ""), D("left", <<C("FUNCTION", "f(1, 2)"), C("op", "/"), C("CALC", "calc(1px + 2px)")>>, "")>>),
        Media(<<"print", "only screen and (color) and (max-width: 20em)">>, <<Style(<<"a:not(.c)", "a[b=v]">>, OneDecl), Style(<<"a:nth-child(2n+1)">>, <<D("color", Red, ""), D("left", Px("1px"), "")>>)>>),
        Page("nm:right", <<D("left", Px("1px"), ""), D("color", Red, "")>>, <<Margin("@top-left", OneDecl), Margin("@bottom-center", <<D("color", Red, "")>>)>>),
        Unknown("@x y { z }"), Style(<<"a", ".c", "#i">>, <<D("left", <<C("STRING", "\"s\""), C("IDENT", "solid")>>, "")>>)>>)}

LevelBases == IF WithLevels
              THEN {Base("L2", <<Style(<<"a">>, b)>>) : b \in Bodies} \cup {Base("L4", <<r>>) : r \in Imports \cup Namespaces \cup Pages \cup Medias \cup Others}
              ELSE {}

\* ---- assignments ----------------------------------------------------------------------------------------------------------
NonDefault(B, f) == Dom[f] \ {B[f]}
Singles(B) == UNION {{[B EXCEPT ![f] = v] : v \in NonDefault(B, f)} : f \in Fields}
Pairs == UNION {{[Default EXCEPT ![fg[1]] = v, ![fg[2]] = w] : v \in NonDefault(Default, fg[1]), w \in NonDefault(Default, fg[2])} :
                    fg \in {x \in Fields \X Fields : x[1] # x[2]}}
FieldSeq == SetToSeq(Fields)
DomSeq == [f \in Fields |-> SetToSeq(Dom[f])]
Hash(n, i) == (n * 7919 + i * 104729 + (Seed % 100) * 1299709 + n * n * i) % 1000003
Full(n) == [f \in Fields |-> LET i == CHOOSE j \in 1..Len(FieldSeq) : FieldSeq[j] = f
                                  s == DomSeq[f]
                              IN  s[(Hash(n, i) % Len(s)) + 1]]
Randoms == {Full(n) : n \in 1..NRandom}
Kinded(kind, preset, B, S) == {[kind |-> kind, preset |-> preset, prefs |-> p, set |-> SetToSeq({f \in Fields : p[f] # B[f]})] : p \in S}
Assignments == Kinded("default", "defaults", Default, {Default}) \cup Kinded("single", "defaults", Default, Singles(Default))
               \cup Kinded("minified", "minified", Minified, {Minified}) \cup Kinded("minified-override", "minified", Minified, Singles(Minified))
               \cup (IF WithPairs THEN Kinded("pair", "defaults", Default, Pairs) ELSE {}) \cup Kinded("random", "defaults", Default, Randoms)
LevelAssignments == Kinded("default", "defaults", Default, {Default}) \cup Kinded("single", "defaults", Default, Singles(Default))
                    \cup Kinded("minified", "minified", Minified, {Minified}) \cup Kinded("random", "defaults", Default, {Full(n) : n \in 1..3})

RowOf(b, a) == [kind |-> "prefs", base |-> b.name, ast |-> b.ast, assignment |-> a.kind, preset |-> a.preset, set |-> a.set, prefs |-> a.prefs,
                free |-> LayoutFree(a.prefs)]
Rows == {RowOf(b, a) : b \in OwnBases, a \in Assignments} \cup {RowOf(b, a) : b \in LevelBases, a \in LevelAssignments}

PInit == row \in Rows /\ sheet = <<>>
PNext == UNCHANGED <<row, sheet>>
PSpec == PInit /\ [][PNext]_<<row, sheet>>

\* ---- design lemmas on every row --------------------------------------------------------------------------------------------
TypeOK == \A f \in Fields : row.prefs[f] \in Dom[f]
\* (a namespace counts as used when a rule of the original sheet uses it, even a rule that is itself dropped as empty: found by TLC on
\*  base "ns-unused"; serialising the reparse once more may therefore drop one more @namespace rule)
Idempotent == ~row.prefs.keepUsedNamespaceRulesOnly => Effect(row.prefs, Effect(row.prefs, row.ast)) = Effect(row.prefs, row.ast)
DefaultKeepsEverythingButEmpties == row.assignment = "default" => Effect([row.prefs EXCEPT !.keepEmptyRules = TRUE, !.resolveVariables = FALSE], row.ast) = row.ast
LayoutNeutral == LayoutIsContentNeutral(row.prefs, row.ast)
OnlyRemoves == NothingAppears(row.prefs, row.ast)
MinifiedIsAnAssignment == \A f \in Fields : Minified[f] \in Dom[f]
\* every preference acts on some base: the single assignment differs from the default effect or is a layout/spelling preference
EmitPrefsRow == Emit => PrintT(<<"ROW", ToJson(row)>>)
=============================================================================
