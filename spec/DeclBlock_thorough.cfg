SPECIFICATION Spec
CONSTANTS
  Emit = FALSE
  Lits = {"color", "COLOR", "c~olor", "left", "lef~t", "top"}
  Values = {"red", "blue", "1px"}
  Prios = {"", "!important", "!IMPORTANT"}
  MaxLen = 3
  MaxHist = 6
CONSTRAINT Bounded
VIEW View
INVARIANT TypeOK
INVARIANT ImportantWins
PROPERTY RefAllowed
PROPERTY SetIsEffective
PROPERTY RemoveExact
PROPERTY RejectedUnchanged
