SPECIFICATION Spec
CONSTANTS
  Classes = {"bs", "dq", "sq", "sl", "st", "mi", "pl", "dot", "pc", "ha", "at", "ex", "lt", "gt", "eq", "ti", "pi", "ca", "do", "qm", "us", "lp", "rp", "lb", "rb", "ls", "rs", "sc", "co", "cm", "dig", "hexl", "let", "u", "r", "l", "sp", "tab", "lf", "cr", "ff", "na", "ctl"}
  MaxLen = 3
  EscLen = 5
  SeqLen = 1
INVARIANT EmitRow
