---------------------------- MODULE SoupContract ----------------------------
(***************************************************************************)
(* C01: parsing any input returns a DOM, never raises, never hangs; the    *)
(* result serialises, and that serialisation parses and serialises again.  *)
(* An observation (one per input x configuration):                         *)
(*   parsed   "ok" | exception class of the parse call | "TIMEOUT"         *)
(*   class    class name of the returned object                            *)
(*   ser, reparse, reser   outcome of cssText / parse of it / its cssText  *)
(*   cpu_ms   CPU time of the parse,  n = input length,  budget_ms         *)
(***************************************************************************)
EXTENDS Naturals, Sequences, FiniteSets, TLC, Json

ExpectedClass(entry) == IF entry = "style" THEN "CSSStyleDeclaration" ELSE "CSSStyleSheet"
\* low polynomial: 1 s + 50 microseconds x n^2 (normal parses of the generated sizes take 0.3 - 3 ms)
Budget(n) == 1000 + (IF n > 40000 THEN (n \div 20) * n ELSE (n * n) \div 20)      \* (TLC integers are 32 bit: no n * n for long inputs)
SoupFailing(r, o) ==
    IF o.parsed = "TIMEOUT" THEN "ReturnsInBoundedTime"
    ELSE IF o.parsed # "ok" THEN "ParseNeverRaises"
    ELSE IF o.class # ExpectedClass(r.entry) THEN "ReturnsDomObject"
    ELSE IF o.cpu_ms > Budget(o.n) THEN "ReturnsInBoundedTime"
    ELSE IF o.ser # "ok" THEN "ResultSerialises"
    ELSE IF o.reparse # "ok" THEN "SerialisationParsesAgain"
    ELSE IF o.reser # "ok" THEN "ReparsedResultSerialises"
    ELSE "ok"
=============================================================================
