SPECIFICATION Spec
CONSTANTS
  MaxCut = 30
  MaxCuts = 2
  ChunkLen = 30
INVARIANT TableTotal
INVARIANT EmitRow
