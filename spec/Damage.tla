------------------------------- MODULE Damage -------------------------------
(***************************************************************************)
(* C04: syntax errors are contained.                                       *)
(* Generators: (1) one malformed construct - a malformed declaration, a    *)
(* rule with an invalid selector, an unknown at-rule or a misplaced        *)
(* at-rule - inserted at a declaration or statement boundary of a          *)
(* well-formed base sheet; the garbage is every token sequence of          *)
(* <= MaxGarbage tokens that is Balanced and is not a valid construct      *)
(* (both predicates below); (2) every prefix of the rendered base sheets.  *)
(* Contract: DOM(damaged) = AST(base) apart from the damaged construct;    *)
(* every rule / declaration complete before the cut is present unchanged.  *)
(***************************************************************************)
EXTENDS DamageContract
CONSTANTS MaxGarbage, CutStep
VARIABLE row

C(t, x) == [t |-> t, x |-> x]
D(n, v, p) == [k |-> "decl", name |-> n, value |-> v, prio |-> p]
Cm(t) == [k |-> "comment", text |-> t]
Style(ss, b) == [k |-> "style", sels |-> ss, body |-> b]
B1 == <<D("left", <<C("DIMENSION", "1px")>>, ""), D("color", <<C("COLOR_VALUE", "red")>>, "important")>>
B2 == <<D("top", <<C("NUMBER", "0")>>, "")>>
Bases == [
  s1 |-> <<Style(<<"a">>, B1)>>,
  s2 |-> <<Style(<<"a", ".c">>, B1), Cm("/*c*/"), Style(<<"b > i">>, B2)>>,
  s3 |-> <<[k |-> "import", href |-> "x.css", hreftype |-> "string", queries |-> <<>>, name |-> "none"],
           [k |-> "namespace", prefix |-> "p", uri |-> "u"], Style(<<"a">>, B2)>>,
  s4 |-> <<[k |-> "media", queries |-> <<"print">>, rules |-> <<Style(<<"a">>, B1), Style(<<"b">>, B2)>>], Style(<<"i">>, B2)>>,
  s5 |-> <<[k |-> "page", sel |-> ":first", body |-> B2, margins |-> <<[name |-> "@top-left", body |-> B2]>>], Style(<<"a">>, B1)>>,
  s6 |-> <<[k |-> "fontface", body |-> <<D("font-family", <<C("IDENT", "x")>>, "")>>], Style(<<"a">>, B2)>>,
  s8 |-> <<[k |-> "media", queries |-> <<"print">>, rules |-> <<Style(<<"a">>, B2),
              [k |-> "media", queries |-> <<"screen">>, rules |-> <<Style(<<"b">>, B2), Style(<<"i">>, B1)>>]>>]>>,
  s9 |-> <<[k |-> "media", queries |-> <<"print">>, rules |-> <<Style(<<"a">>, B2),
              [k |-> "page", sel |-> ":first", body |-> B2, margins |-> <<[name |-> "@top-left", body |-> B2]>>]>>]>>,
  \* values that are functions: a cut may fall after any number of their arguments
  s10 |-> <<Style(<<"a">>, B2), Style(<<"b">>, <<D("color", <<C("COLOR_VALUE", "rgb(10, 20, 30)")>>, ""), D("left", <<C("CALC", "calc(1px + 2px)")>>, ""),
                                  D("background", <<C("URI", "url(x)")>>, ""), D("top", <<C("FUNCTION", "f(1, 2)")>>, "")>>),
            Style(<<"i">>, <<D("color", <<C("COLOR_VALUE", "hsla(120, 50%, 50%, 0.5)")>>, "important")>>)>>,
  s7 |-> <<[k |-> "namespace", prefix |-> "p", uri |-> "u"], Style(<<"a">>, B2), Style(<<"p|a">>, B1),
           [k |-> "media", queries |-> <<"print">>, rules |-> <<Style(<<"p|b", "b">>, B2)>>]>>]
BaseIds == DOMAIN Bases

\* ---- garbage ---------------------------------------------------------------------------------------------------
GTok == {"ident", "fn(", "(", ")", "[", "]", "{", "}", "string", "number", ":", "!", "@kw", ",", "#hash", "*", "$"}
Opens(t) == t \in {"fn(", "(", "[", "{"}
Closer(t) == CASE t \in {"fn(", "("} -> ")" [] t = "[" -> "]" [] t = "{" -> "}"
RECURSIVE Bal(_, _)
Bal(g, stack) == IF g = <<>> THEN stack = <<>>
                 ELSE IF Opens(g[1]) THEN Bal(Tail(g), <<Closer(g[1])>> \o stack)
                 ELSE IF g[1] \in {")", "]", "}"} THEN (stack # <<>> /\ stack[1] = g[1] /\ Bal(Tail(g), Tail(stack)))
                 ELSE Bal(Tail(g), stack)
Balanced(g) == Bal(g, <<>>)
Garbage == UNION {[1..n -> GTok] : n \in 1..MaxGarbage}
\* a token sequence that may be read as a (possibly odd but acceptable) declaration: ident ':' something
LooksLikeDecl(g) == Len(g) >= 3 /\ g[1] = "ident" /\ g[2] = ":"
\* top-level '{' would start a nested block inside a declaration list; the statement only speaks of balanced garbage
\* without a top-level block end, which is true of Balanced sequences (every '}' closes a '{' of the garbage)
DeclGarbage == {g \in Garbage : Balanced(g) /\ ~LooksLikeDecl(g) /\ g[1] # "@kw"}
\* selector garbage: balanced, no '{' (it would start the block), not a valid selector
ValidSelectorish(g) == g \in {<<"ident">>, <<"*">>, <<"#hash">>, <<"ident", "ident">>, <<"ident", "#hash">>, <<"ident", "*">>, <<"*", "ident">>,
                              <<"#hash", "ident">>, <<"ident", ",", "ident">>, <<"ident", ":", "ident">>, <<"*", ":", "ident">>,
                              <<"#hash", ":", "ident">>, <<":", "ident">>, <<"ident", "*", "ident">>, <<"ident", "ident", "ident">>,
                              <<"ident", "#hash", "ident">>, <<"*", "ident", "ident">>, <<"ident", "ident", "*">>, <<"ident", "ident", "#hash">>,
                              <<"[", "ident", "]">>,          \* an attribute selector
                              <<"*", "*">>, <<"*", "#hash">>, <<"#hash", "#hash">>, <<"#hash", "*">>, <<"ident", "*", "*">>, <<"*", "*", "*">>}
SelGarbage == {g \in Garbage : Balanced(g) /\ "{" \notin Range(g) /\ "@kw" \notin Range(g) /\ Len(g) <= 3 /\ ~ValidSelectorish(g)
                  /\ (\E i \in 1..Len(g) : g[i] \in {"!", "$", "(", "[", "string", "number", ",", ":"})
                  /\ ~(\A i \in 1..Len(g) : g[i] \in {"ident", "*", "#hash", ":", ","}) }
AtGarbage == {g \in Garbage : Balanced(g) /\ Len(g) <= 2 /\ "{" \notin Range(g)}
Misplaced == {"charset-late", "import-late", "namespace-late", "namespace-redeclare-late", "namespace-default-late", "import-in-media",
              "margin-outside-page", "charset-in-media", "fontface-in-media", "import-nosemi-last-in-media"}
\* statement boundaries at which a head rule (@charset, @import, @namespace) is misplaced: after a rule of the body
MisPositions(b) == {j \in 1..Len(Bases[b]) : \E i \in 1..j : Bases[b][i].k \in {"style", "media", "page", "fontface"}}

NDecls(r) == IF r.k \in {"style", "page", "fontface"} THEN Len(r.body) ELSE 0
DeclRows == UNION {{[kind |-> "damage", what |-> "declaration", base |-> b, rule |-> i, at |-> j, g |-> g] :
                      i \in {x \in 1..Len(Bases[b]) : Bases[b][x].k = "style"}, j \in 0..2, g \in DeclGarbage} : b \in {"s1", "s2"}}
SelRows  == UNION {{[kind |-> "damage", what |-> "selector", base |-> b, rule |-> 0, at |-> j, g |-> g] : j \in 0..Len(Bases[b]), g \in SelGarbage} : b \in {"s2", "s3", "s4"}}
AtRows   == UNION {{[kind |-> "damage", what |-> w, base |-> b, rule |-> 0, at |-> j, g |-> g] :
                      w \in {"unknown-at-statement", "unknown-at-block"}, j \in 0..Len(Bases[b]), g \in AtGarbage} : b \in {"s2", "s3"}}
MisRows  == UNION {{[kind |-> "damage", what |-> w, base |-> b, rule |-> 0, at |-> j, g |-> <<>>] : w \in Misplaced, j \in MisPositions(b)} : b \in BaseIds}
InMedia  == {[kind |-> "damage", what |-> "declaration", base |-> "s4", rule |-> 1, at |-> j, g |-> g] : j \in 0..2, g \in {x \in DeclGarbage : Len(x) <= 2}}
TruncRows == {[kind |-> "trunc", base |-> b, step |-> CutStep, what |-> "prefix", rule |-> 0, at |-> 0, g |-> <<>>] : b \in BaseIds}
\* an unknown at-rule (statement, block, block holding a rule) at every declaration boundary of every kind of declaration block
\* (style rule, @page, margin box, @font-face, also nested in @media: the adapter numbers the boundaries of the rendered base and
\* skips numbers the base does not have), followed directly by the next declaration, by a space or by a semicolon
MaxBoundary == 9
InBlockRows == {[kind |-> "damage", what |-> "at-in-block", base |-> b, rule |-> 0, at |-> j, g |-> g, form |-> f, sep |-> sp] :
                  b \in {"s1", "s4", "s5", "s6", "s9"}, j \in 0..MaxBoundary, g \in {<<>>, <<"ident">>, <<"string", "number">>},
                  f \in {"statement", "block", "block-rule"}, sp \in {"glued", "space", "semicolon"}}
\* a head statement (@import, @namespace) that is malformed because it carries a block, at every statement boundary
HeadBlockRows == UNION {{[kind |-> "damage", what |-> w, base |-> b, rule |-> 0, at |-> j, g |-> <<>>] :
                           w \in {"import-with-block", "namespace-with-block"}, j \in 0..Len(Bases[b])} : b \in {"s2", "s3", "s4"}}
Rows == DeclRows \cup SelRows \cup AtRows \cup MisRows \cup InMedia \cup TruncRows \cup InBlockRows \cup HeadBlockRows
Init == row \in Rows
Next == UNCHANGED row
Spec == Init /\ [][Next]_row
\* vacuity guards: the garbage sets are not empty and really unbalanced sequences are excluded
GarbageNonTrivial == Cardinality(DeclGarbage) > 10 /\ Cardinality(SelGarbage) > 10 /\ <<"(">> \notin DeclGarbage /\ <<"(", ")">> \in DeclGarbage
EmitRow == PrintT(<<"ROW", ToJson(row @@ [ast |-> Bases[row.base]])>>)

=============================================================================
