--------------------------- MODULE DamageContract ---------------------------
(* Contract of C04 (see Damage.tla for the generators): what the DOM of a damaged / truncated sheet must be. *)
EXTENDS SheetASTContract
\* ---- contract ---------------------------------------------------------------------------------------------------------
\* damage: the adapter removes from the projection only rules it can attribute to the inserted construct
\* (unknown rules whose keyword is @kw / @garbage); everything else must equal the base sheet
DamageFailing(r, o) ==
    IF o.out # "ok" THEN "DamagedSheetParses"
    ELSE IF o.dom # r.ast THEN "OnlyTheMalformedConstructIsDropped"
    ELSE "ok"
\* truncation: o.cuts = sequence of [k, complete |-> expected complete prefix (rules), open |-> complete declarations of the open rule, dom]
CutFailing(c) ==
    IF c.out # "ok" THEN "TruncatedSheetParses"
    ELSE IF ~IsPrefix(c.complete, c.dom) THEN "CompleteRulesSurviveTruncation"
    ELSE IF c.open # <<>> /\ (Len(c.dom) <= Len(c.complete) \/ ~IsPrefix(c.open, c.dom[Len(c.complete) + 1].body)) THEN "CompleteDeclarationsSurviveTruncation"
    \* inside every @media rule left open by the cut (at any depth): the nested rules complete before the cut are there, in order
    ELSE IF \E i \in 1..Len(c.nested) : ~IsPrefix(c.nested[i].complete, c.nested[i].got) THEN "CompleteRulesSurviveTruncation"
    ELSE "ok"
RECURSIVE FirstCut(_, _)
FirstCut(cs, i) == IF i > Len(cs) THEN "ok" ELSE IF CutFailing(cs[i]) # "ok" THEN CutFailing(cs[i]) ELSE FirstCut(cs, i + 1)
TruncFailing(r, o) == FirstCut(o.cuts, 1)
=============================================================================
