SPECIFICATION Spec
CONSTANTS
  Depth2 = TRUE
  Depth3 = FALSE
INVARIANT OverrideGoverns
INVARIANT NothingMeansUtf8
INVARIANT EmitRow
