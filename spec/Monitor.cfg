SPECIFICATION MSpec
INVARIANT MReport
POSTCONDITION MDone
