------------------------------ MODULE SheetDOM ------------------------------
(***************************************************************************)
(* Machine explored by TLC for C09: histories of insertRule (index),       *)
(* add (ordered), deleteRule, cssText / encoding assignment and nested     *)
(* @media / @page list edits.  ALGORITHM LAYER: the acceptance tests and   *)
(* the placement of an ordered add mirror CSSStyleSheet.insertRule         *)
(* (cssstylesheet.py); with Deviations = TRUE the placement of a first     *)
(* @namespace / @variables rule is the historical one ("before the first   *)
(* variables/media/page/style/font-face/unknown/comment rule"), for which  *)
(* TLC finds  comment, import + add(namespace)  ->  namespace first.       *)
(* With FALSE (the repaired placement: never before an @charset/@import)   *)
(* every reachable state satisfies Valid.                                  *)
(***************************************************************************)
EXTENDS SheetDOMContract
CONSTANTS Templates,     \* rule records the generator inserts
          KidKinds,      \* child kinds tried in nested lists
          Texts,         \* sequences of rule records assigned through cssText
          MaxLen, MaxHist, Deviations, Emit
VARIABLES rules, hist
vars == <<rules, hist>>

Before(rs, i) == {rs[j].k : j \in 1..i}                 \* kinds before 0-based index i
From(rs, i)   == {rs[j].k : j \in (i + 1)..Len(rs)}     \* kinds at or after index i
CharsetFirst(rs) == Len(rs) > 0 /\ rs[1].k = "charset"
Body == {"media", "page", "style", "fontface"}

\* mirrors the hierarchy checks of insertRule(rule, index)
ImplAccepts(rs, r, i) ==
    /\ i <= Len(rs)
    /\ CASE r.k = "charset" -> i = 0 /\ ~CharsetFirst(rs)
         [] r.k \in {"comment", "unknown"} -> ~(i = 0 /\ CharsetFirst(rs))
         [] r.k = "import" -> ~(i = 0 /\ CharsetFirst(rs)) /\ Before(rs, i) \cap (Body \cup {"namespace", "variables"}) = {}
         [] r.k = "namespace" -> From(rs, i) \cap {"charset", "import"} = {} /\ Before(rs, i) \cap (Body \cup {"variables"}) = {}
         [] r.k = "variables" -> From(rs, i) \cap {"charset", "import", "namespace"} = {} /\ Before(rs, i) \cap Body = {}
         [] OTHER -> From(rs, i) \cap {"charset", "import", "namespace"} = {}

LastOf(rs, k) == CHOOSE j \in 1..Len(rs) : rs[j].k = k /\ \A m \in 1..Len(rs) : rs[m].k = k => m <= j
FirstIn(rs, S, start) ==   \* 0-based index of the first rule at or after `start` whose kind is in S, else Len(rs)
    LET c == {j \in (start + 1)..Len(rs) : rs[j].k \in S}
    IN  IF c = {} THEN Len(rs) ELSE (CHOOSE j \in c : \A m \in c : j <= m) - 1
AfterLast(rs, S) ==        \* 0-based index just after the last rule whose kind is in S (0 if none)
    LET c == {j \in 1..Len(rs) : rs[j].k \in S}
    IN  IF c = {} THEN 0 ELSE CHOOSE j \in c : \A m \in c : m <= j
\* mirrors the placement of insertRule(rule, inOrder=True)
AddIndex(rs, r) ==
    CASE r.k = "charset" -> 0
      [] r.k = "import" -> IF "import" \in Range(KindsOf(rs)) THEN LastOf(rs, "import")
                           ELSE IF Len(rs) > 0 /\ rs[1].k \in {"charset", "comment"} THEN 1 ELSE 0
      [] r.k = "namespace" -> IF "namespace" \in Range(KindsOf(rs)) THEN LastOf(rs, "namespace")
                              ELSE FirstIn(rs, Body \cup {"variables", "unknown", "comment"},
                                           IF Deviations THEN 0 ELSE AfterLast(rs, {"charset", "import"}))
      [] r.k = "variables" -> IF "variables" \in Range(KindsOf(rs)) THEN LastOf(rs, "variables")
                              ELSE FirstIn(rs, Body \cup {"unknown", "comment"},
                                           IF Deviations THEN 0 ELSE AfterLast(rs, {"charset", "import", "namespace"}))
      [] OTHER -> Len(rs)

SameNs(rs, r) == \E j \in 1..Len(rs) : rs[j].k = "namespace" /\ rs[j].d = r.d
RefInsert(rs, r, i) == IF ~ImplAccepts(rs, r, i) THEN rs
                       ELSE IF r.k = "namespace" /\ SameNs(rs, r) THEN rs ELSE Ins(rs, r, i)
RefAdd(rs, r) == IF r.k = "charset" THEN SetEnc(rs, r.d)
                 ELSE IF r.k = "namespace" /\ SameNs(rs, r) THEN rs
                 ELSE Ins(rs, r, AddIndex(rs, r))
KidOk(r, c) == ChildrenAllowed([r EXCEPT !.kids = <<c>>])
Ref(rs, a) ==
    CASE a.op = "insert"  -> RefInsert(rs, a.r, a.i)
      [] a.op = "add"     -> RefAdd(rs, a.r)
      [] a.op = "delete"  -> IF a.i < Len(rs) THEN Del(rs, a.i) ELSE rs
      [] a.op = "settext" -> IF Valid(a.rules) THEN a.rules ELSE rs
      [] a.op = "setenc"  -> SetEnc(rs, a.e)
      [] a.op = "kidinsert" -> IF a.j < Len(rs) /\ a.i <= Len(rs[a.j + 1].kids) /\ KidOk(rs[a.j + 1], a.c)
                               THEN WithKids(rs, a.j, InsK(rs[a.j + 1].kids, a.c, a.i)) ELSE rs
      [] a.op = "kidadd"  -> IF a.j < Len(rs) /\ KidOk(rs[a.j + 1], a.c)
                             THEN WithKids(rs, a.j, Append(rs[a.j + 1].kids, a.c)) ELSE rs
      [] a.op = "kidinsertlist" ->      \* a rule list as argument: every member is subject to the same checks (all or nothing here)
                               IF a.j < Len(rs) /\ \A n \in 1..Len(a.cs) : KidOk(rs[a.j + 1], a.cs[n])
                               THEN WithKids(rs, a.j, a.cs \o rs[a.j + 1].kids) ELSE rs
      [] a.op = "styleset" -> rs       \* a declaration edit: the rule list is untouched (parent links are re-checked)
      [] a.op = "kiddelete" -> IF a.j < Len(rs) /\ a.i < Len(rs[a.j + 1].kids)
                               THEN WithKids(rs, a.j, DelK(rs[a.j + 1].kids, a.i)) ELSE rs

Styled(rs) == {j \in 0..(Len(rs) - 1) : rs[j + 1].k \in {"style", "page", "fontface"}}
Nested(rs) == {j \in 0..(Len(rs) - 1) : rs[j + 1].k \in {"media", "page"}}
Enabled(rs) ==
    {[op |-> "insert", r |-> r, i |-> i, how |-> h] : r \in Templates, i \in 0..(Len(rs) + 1), h \in {"text", "object"}}
    \cup {[op |-> "add", r |-> r, how |-> h] : r \in Templates, h \in {"text", "object"}}
    \cup {[op |-> "delete", i |-> i] : i \in 0..Len(rs)}
    \cup {[op |-> "settext", rules |-> t] : t \in Texts}
    \cup {[op |-> "setenc", e |-> e] : e \in {"none", "ascii", "utf-8"}}
    \cup {[op |-> "kidinsert", j |-> j, c |-> c, i |-> i] : j \in Nested(rs), c \in KidKinds, i \in 0..1}
    \cup {[op |-> "kidadd", j |-> j, c |-> c] : j \in Nested(rs), c \in KidKinds}
    \cup {[op |-> "kidinsertlist", j |-> j, cs |-> <<IF rs[j + 1].k = "page" THEN "margin" ELSE "style", c>>] : j \in Nested(rs), c \in KidKinds}
    \cup {[op |-> "kiddelete", j |-> j, i |-> i] : j \in Nested(rs), i \in 0..1}
    \cup {[op |-> "styleset", j |-> j, how |-> h] : j \in Styled(rs), h \in {"name", "object", "foreign"}}

Act(a) == /\ Len(hist) < MaxHist
          /\ rules' = Ref(rules, a)
          /\ hist' = Append(hist, a)
          /\ (Emit => PrintT(<<"HIST", ToJson([h |-> Append(hist, a), s |-> rules])>>))
Init == rules = <<>> /\ hist = <<>>
Next == \E a \in Enabled(rules) : Act(a)
Spec == Init /\ [][Next]_vars
Bounded == Len(rules) <= MaxLen /\ \A i \in 1..Len(rules) : Len(rules[i].kids) <= 2
View == rules

\* C09 on the design: the algorithm keeps the sheet valid
AlwaysValid == Valid(rules)
\* the algorithm's steps are steps the contract allows
RefAllowed == [][hist' # hist => StepFailing(rules, hist'[Len(hist')], "ok", rules') \in {"ok", "IndexSizeRejected"}
                                 \/ rules' = rules]_vars


\* ---- constants of the configurations (records cannot be written in a .cfg file) ------------------
TemplatesQuick == {[k |-> "charset", d |-> "utf-8", kids |-> <<>>],
    [k |-> "import", d |-> "", kids |-> <<>>],
    [k |-> "namespace", d |-> "p=u1", kids |-> <<>>],
    [k |-> "namespace", d |-> "q=u1", kids |-> <<>>],
    [k |-> "media", d |-> "", kids |-> <<"style">>],
    [k |-> "style", d |-> "", kids |-> <<>>],
    [k |-> "comment", d |-> "", kids |-> <<>>],
    [k |-> "unknown", d |-> "", kids |-> <<>>],
    [k |-> "page", d |-> "", kids |-> <<>>],
    [k |-> "page", d |-> "", kids |-> <<"margin">>]}    \* written with the same margin box twice: the boxes are merged
TemplatesThorough == TemplatesQuick \cup {[k |-> "charset", d |-> "ascii", kids |-> <<>>],
    [k |-> "namespace", d |-> "p=u2", kids |-> <<>>],
    [k |-> "variables", d |-> "", kids |-> <<>>],
    [k |-> "fontface", d |-> "", kids |-> <<>>]}
TextsAll == {<<>>,
    <<[k |-> "import", d |-> "", kids |-> <<>>], [k |-> "style", d |-> "", kids |-> <<>>]>>,
    <<[k |-> "charset", d |-> "utf-8", kids |-> <<>>], [k |-> "namespace", d |-> "p=u1", kids |-> <<>>], [k |-> "media", d |-> "", kids |-> <<"style">>]>>,
    <<[k |-> "style", d |-> "", kids |-> <<>>], [k |-> "import", d |-> "", kids |-> <<>>]>>,
    <<[k |-> "comment", d |-> "", kids |-> <<>>], [k |-> "import", d |-> "", kids |-> <<>>]>>,
    <<[k |-> "style", d |-> "", kids |-> <<>>], [k |-> "charset", d |-> "utf-8", kids |-> <<>>]>>}

EmitWalk == Len(hist) = MaxHist => PrintT(<<"WALK", ToJson(hist)>>)
EmitAlphabet == hist = <<>> => PrintT(<<"ALPHABET", ToJson({[op |-> "n/a"]})>>)
=============================================================================
