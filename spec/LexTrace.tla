------------------------------ MODULE LexTrace ------------------------------
EXTENDS LexContract, IOUtils
VARIABLES tid, l, bad
Traces == ndJsonDeserialize(IOEnv.TRACE_FILE)
StepClause(pre, ev) == CASE ev.post.kind = "lex" -> LexFailing(ev.post)
                         [] ev.post.kind = "classify" -> (IF LexFailing(ev.post) # "ok" THEN LexFailing(ev.post) ELSE ClassifyFailing(ev.post))
                         [] ev.post.kind = "errorpos" -> ErrorPosFailing(ev.post)
StateClause(o) == "ok"
INSTANCE Monitor
=============================================================================
