------------------------------ MODULE Content ------------------------------
(* Enumerates character content for every text-carrying position (C03, C18) and checks the escaping scheme. *)
EXTENDS RoundTripContract
CONSTANTS MaxLen
VARIABLE row
Classes == {"plain", "hexletter", "hexupper", "digit", "dq", "sq", "bs", "lf", "cr", "ff", "tab", "sp", "lp", "rp", "sc", "cm", "starslash",
            "lb", "rb", "nonascii", "astral", "ctl"}
Positions == {"string", "url", "ident", "class", "id", "attrvalue", "nsuri", "href", "comment", "comment-in-block"}
Contents == UNION {[1..k -> Classes] : k \in 0..MaxLen}
CommentOk(cs) == \A i \in 1..Len(cs) : cs[i] \notin {"starslash", "ctl", "cr", "ff", "bs"}
HasNonAscii(cs) == \E i \in 1..Len(cs) : cs[i] \in {"nonascii", "astral"}
Rows == {[kind |-> "content", pos |-> p, cs |-> c, enc |-> "utf-8"] : p \in Positions, c \in Contents}
        \cup {[kind |-> "content", pos |-> p, cs |-> c, enc |-> e] : p \in Positions, c \in {x \in Contents : HasNonAscii(x)}, e \in {"ascii", "iso-8859-1"}}
\* an @import rule (comment before / after the href or none, with or without name and media) after an accepted DOM edit of it
ImportEditRows == {[kind |-> "importedit", cm |-> c, name |-> n, media |-> m, edit |-> e] :
                      c \in {"none", "before-href", "after-href"}, n \in BOOLEAN, m \in {"none", "print"},
                      e \in {"mediaText", "mediaobject", "href", "name", "none"}}
Init == row \in ImportEditRows \cup {r \in Rows : (r.pos \in {"comment", "comment-in-block"} => CommentOk(r.cs)) /\ (r.pos \in {"ident", "class", "id", "href", "nsuri"} => Len(r.cs) > 0)}
Next == UNCHANGED row
Spec == Init /\ [][Next]_row
QuoteLossless == row.kind = "content" => Unquote(Quote(row.cs)) = row.cs /\ NoRawBreaker(Quote(row.cs))
EmitRow == PrintT(<<"ROW", ToJson(row)>>)
=============================================================================
