SPECIFICATION Spec
CONSTANTS
  Classes = {"bs", "dq", "sq", "sl", "st", "mi", "pl", "dot", "pc", "ha", "at", "ex", "lt", "gt", "eq", "us", "lp", "rp", "lb", "sc", "dig", "hexl", "let", "u", "sp", "lf", "cr", "na", "as"}
  MaxLen = 3
  EscLen = 4
  SeqLen = 1
INVARIANT EmitRow
