-------------------------- MODULE EncChainContract --------------------------
(***************************************************************************)
(* C08: which encoding decodes a stylesheet and the sheets it imports, and *)
(* what its serialisation guarantees.                                      *)
(*   Chosen = explicit override  >  transport (HTTP) charset  >  BOM /     *)
(*            @charset in the content  >  encoding of the referring sheet  *)
(*            >  UTF-8;   an override governs every nested import,         *)
(*            otherwise a sheet's chosen encoding is the referring         *)
(*            encoding of its own imports.                                 *)
(* The adapter serves every node's bytes ENCODED IN THE ENCODING THIS SPEC *)
(* CHOOSES, with a probe character whose bytes decode to something else    *)
(* (or not at all) under each of the other candidate encodings, so a wrong *)
(* choice is visible in the imported sheet's text.                         *)
(***************************************************************************)
EXTENDS Naturals, Sequences, FiniteSets, TLC, SequencesExt, Json

Encs == {"iso-8859-1", "iso-8859-5", "koi8-r", "utf-8"}
\* probe character (code point) written in a node whose chosen encoding is e
Probe(e) == CASE e \in {"iso-8859-1", "utf-8"} -> 233 [] OTHER -> 1103      \* (utf-16: the Cyrillic one)      \* e-acute / Cyrillic ya
MarkEnc(m) == CASE m = "bom" -> "utf-8" [] m = "bom16" -> "utf-16" [] m = "upper:iso-8859-1" -> "none" [] m = "cs:iso-8859-1" -> "iso-8859-1" [] m = "cs:iso-8859-5" -> "iso-8859-5"
                [] m = "cs:koi8-r" -> "koi8-r" [] m = "cs:utf-8" -> "utf-8" [] OTHER -> "none"

Chosen(n, parentEnc, override) ==
    IF override # "none" THEN override
    ELSE IF n.http # "none" THEN n.http
    ELSE IF n.mark # "none" THEN MarkEnc(n.mark)
    ELSE IF parentEnc # "none" THEN parentEnc
    ELSE "utf-8"
\* the root is parsed from bytes or text given by the caller
RootEnc(r) == IF r.override # "none" THEN r.override ELSE IF MarkEnc(r.mark) # "none" THEN MarkEnc(r.mark) ELSE "utf-8"
\* what the root hands to its imports as "referring sheet's encoding": its @charset / override, none if it has neither
RootParent(r) == IF r.override # "none" THEN r.override ELSE MarkEnc(r.mark)

RECURSIVE ChainEncs(_, _, _)
ChainEncs(chain, parentEnc, override) ==
    IF chain = <<>> THEN <<>>
    ELSE LET c == Chosen(chain[1], parentEnc, override) IN <<c>> \o ChainEncs(Tail(chain), c, override)
\* a BOM-detected UTF-8 sheet may report the codec name utf-8-sig
SameEnc(a, b) == a = b \/ {a, b} = {"utf-8", "utf-8-sig"} \/ {a, b} \subseteq {"utf-16", "utf_16", "utf-16-le", "utf_16_le"}
Loaded(chain, i) == \A j \in 1..i : chain[j].fetch = "data"
Expect(row) == ChainEncs(row.chain, RootParent(row.root), row.root.override)

ChainFailing(row, o) ==
    IF o.out # "ok" THEN "ParseReturns"
    ELSE IF o.rootenc # RootEnc(row.root) THEN "RootEncodingIsOverrideElseCharsetElseUtf8"
    \* the serialisation of the root declares (through its @charset rule, or by having none) the encoding the sheet reports
    ELSE IF ~SameEnc(o.rootenc2, o.rootenc) THEN "ReportedEncodingIsTheCharsetRuleOfTheSerialisation"
    ELSE IF \E i \in 1..Len(row.chain) : Loaded(row.chain, i) /\ ~o.levels[i].found THEN "ImportedSheetLoaded"
    ELSE IF \E i \in 1..Len(row.chain) : ~Loaded(row.chain, i) /\ (i = 1 \/ Loaded(row.chain, i - 1)) /\ o.levels[i].found THEN "UnavailableImportStaysEmpty"
    ELSE IF \E i \in 1..Len(row.chain) : Loaded(row.chain, i) /\ o.levels[i].probe # <<Probe(Expect(row)[i])>> THEN "ImportDecodedWithChosenEncoding"
    ELSE IF \E i \in 1..Len(row.chain) : Loaded(row.chain, i) /\ ~SameEnc(o.levels[i].enc, Expect(row)[i]) THEN "ImportedSheetReportsChosenEncoding"
    ELSE "ok"

\* a later edit: the sheet's encoding attribute is set (or removed), then a new @import is added to that sheet; the new
\* import is resolved against the sheet's CURRENT encoding
ExpectNew(row) == Chosen(row.newnode, row.newenc, "none")
EditFailing(row, o) ==
    IF o.out # "ok" THEN "EditReturns"
    ELSE IF ~o.newfound THEN "ImportedSheetLoaded"
    ELSE IF o.newprobe # <<Probe(ExpectNew(row))>> THEN "LaterImportDecodedWithCurrentEncoding"
    ELSE IF ~SameEnc(o.newenc, ExpectNew(row)) THEN "ImportedSheetReportsChosenEncoding"
    ELSE "ok"

\* ---- second half: reported encoding = @charset rule; serialisation decodable and lossless -------------------
EscapeFailing(row, o) ==
    IF o.out # "ok" THEN "SerialiseNeverRaises"
    ELSE IF o.reported # row.target THEN "ReportedEncodingIsCharsetRule"
    ELSE IF o.rule # row.target THEN "CharsetRuleMirrorsEncoding"
    ELSE IF ~o.decodes THEN "BytesDecodableInReportedEncoding"
    ELSE IF o.back # row.cps THEN "UnencodableCharactersEscapedNotDropped"
    ELSE IF o.afterreset # "utf-8" THEN "NoCharsetRuleMeansUtf8"
    ELSE "ok"
=============================================================================
