------------------------- MODULE NamespacesContract -------------------------
(***************************************************************************)
(* C15: namespace declarations and namespaced selectors stay consistent.   *)
(*                                                                         *)
(* Observed state (read back through the public DOM after every call):     *)
(*   nsrules  sequence of <<prefix, uri>> of the @namespace rules          *)
(*   mapping  set-like sequence of <<prefix, uri>> = sheet.namespaces      *)
(*   sels     per style rule: id, ver (bumped when its selector text is    *)
(*            rewritten), where ("sheet" / "detached"), items = sequence   *)
(*            of [uri, local, kind] with kind "explicit" (p|e, *|e, |e,    *)
(*            [p|a]) or "default" (unprefixed type selector)               *)
(*   reparse  the same projection of parseString(sheet.cssText)            *)
(* uri values: a URI, "" (no namespace), "*any*", "none" (no default).     *)
(***************************************************************************)
EXTENDS FiniteSetsExt, Naturals, Sequences, FiniteSets, TLC, SequencesExt, Json

DOMExc == {"SyntaxErr", "HierarchyRequestErr", "NamespaceErr", "IndexSizeErr",
           "InvalidModificationErr", "NoModificationAllowedErr", "NotFoundErr",
           "InvalidCharacterErr", "InvalidStateErr", "InvalidAccessErr"}
Special == {"", "*any*", "none"}

\* effective rules: the last declaration of a URI wins
LastOfUri(rs) == {i \in 1..Len(rs) : \A j \in 1..Len(rs) : rs[j][2] = rs[i][2] => j <= i}
EffPairs(rs) == {rs[i] : i \in LastOfUri(rs)}
\* a prefix bound to two different effective URIs: which one the mapping shows is not specified
Ambiguous(rs, p) == Cardinality({x \in EffPairs(rs) : x[1] = p}) > 1
MappingOK(rs, m) ==
    /\ Range(m) \subseteq EffPairs(rs)
    /\ \A x \in EffPairs(rs) : ~Ambiguous(rs, x[1]) => x \in Range(m)
    /\ \A i, j \in 1..Len(m) : m[i][1] = m[j][1] => i = j
Default(m) == IF \E i \in 1..Len(m) : m[i][1] = "" THEN (CHOOSE x \in Range(m) : x[1] = "")[2] ELSE "none"
Declared(rs) == {rs[i][2] : i \in 1..Len(rs)}
Attached(sels) == SelectSeq(sels, LAMBDA s : s.where = "sheet")
UsedUris(sels) == UNION {{s.items[i].uri : i \in {k \in 1..Len(s.items) : s.items[k].kind = "explicit"}} : s \in Range(Attached(sels))}
                  \ Special

Pairs(items) == [i \in 1..Len(items) |-> <<items[i].uri, items[i].local>>]

StateFailing(o) ==
    IF ~MappingOK(o.nsrules, o.mapping) THEN "MappingIsEffectiveRules"
    ELSE IF ~(UsedUris(o.sels) \subseteq Declared(o.nsrules)) THEN "UsedUrisDeclared"
    ELSE IF \E s \in Range(Attached(o.sels)) : \E i \in 1..Len(s.items) :
                s.items[i].kind = "default" /\ s.items[i].uri # Default(o.mapping) THEN "UnprefixedFollowsDefault"
    ELSE IF \E i \in 1..Len(o.nsrules) : Ambiguous(o.nsrules, o.nsrules[i][1]) THEN "ok"   \* one prefix bound to two URIs: what
                                                     \* the text re-resolves to is not specified, nothing more is demanded
    ELSE IF o.reparse.ok # "ok" THEN "SerialisationReparses"
    ELSE IF ~MappingOK(o.reparse.nsrules, o.reparse.mapping) \/ Range(o.reparse.mapping) # Range(o.mapping) THEN "NamespaceRulesSerialiseWellFormed"
    ELSE IF Len(o.reparse.sels) # Len(Attached(o.sels)) THEN "SerialisationKeepsRules"
    ELSE IF \E i \in 1..Len(o.reparse.sels) :
                LET d == Attached(o.sels)[i].items  r == o.reparse.sels[i] IN
                Len(d) # Len(r) \/ \E k \in 1..Len(d) : d[k].kind = "explicit" /\ <<d[k].uri, d[k].local>> # <<r[k].uri, r[k].local>>
         THEN "SerialisationReresolves"
    ELSE "ok"

Find(sels, id, ver) == {i \in 1..Len(sels) : sels[i].id = id /\ sels[i].ver = ver}
StepFailing(pre, a, out, post) ==
    IF out \in DOMExc /\ (post.nsrules # pre.nsrules \/ post.sels # pre.sels) THEN "RejectedUnchanged"
    ELSE IF a.op \in {"addsel", "setseltext"} /\ a.form = "z|e" /\ out = "ok" THEN "UndeclaredPrefixRejected"
    ELSE IF \E i \in 1..Len(pre.sels) : \E j \in Find(post.sels, pre.sels[i].id, pre.sels[i].ver) :
               \E k \in 1..Len(pre.sels[i].items) :
                   /\ pre.sels[i].items[k].kind = "explicit"
                   /\ (Len(post.sels[j].items) # Len(pre.sels[i].items)
                       \/ <<post.sels[j].items[k].uri, post.sels[j].items[k].local>> # <<pre.sels[i].items[k].uri, pre.sels[i].items[k].local>>)
         THEN "DenotationStable"
    \* a rule outside the sheet is not affected by edits of the sheet it once belonged to
    ELSE IF \E i \in 1..Len(pre.sels) : \E j \in Find(post.sels, pre.sels[i].id, pre.sels[i].ver) :
               pre.sels[i].where = "detached" /\ post.sels[j].where = "detached" /\ post.sels[j].text # pre.sels[i].text
         THEN "DetachedRuleKeepsItsText"
    ELSE "ok"

\* ---- parsing a text in which an @namespace rule comes too late (after a style rule) --------------------------------------------
\* row: what is declared in time (none / prefix p / the default namespace, URI u1), the late rule (new prefix q, p again, the default;
\* URI u2), and a selector form used after it.  The late rule is ignored (C04), so it declares nothing: the mapping is what was
\* declared in time, a selector using a prefix that is not declared is rejected, every other name keeps its meaning.
NsParseFailing(r, o) ==
    LET declared == CASE r.declared = "none" -> <<>> [] r.declared = "p" -> <<<<"p", "u1">>>> [] OTHER -> <<<<"", "u1">>>>
        usable == r.use \in {"e", "*|e", "|e"} \/ (r.use \in {"p|e", "[p|a]"} /\ r.declared = "p")
        want == CASE r.use \in {"p|e", "[p|a]"} -> "u1"
                  [] r.use = "e"   -> (IF r.declared = "default" THEN "u1" ELSE "none")
                  [] r.use = "*|e" -> "*any*"
                  [] OTHER -> ""
    IN  IF o.out # "ok" THEN "ParseCompletes"
        ELSE IF o.mapping # declared THEN "MisplacedNamespaceRuleDeclaresNothing"
        ELSE IF ~usable /\ o.present THEN "UndeclaredPrefixRejected"
        ELSE IF usable /\ ~o.present THEN "RuleAfterMisplacedNamespaceRuleSurvives"
        ELSE IF o.present /\ o.uri # want THEN "DenotationStable"
        ELSE "ok"

\* ---- one URI declared several times in one text: "the last declaration of a URI wins, one prefix per URI" ------------------------
\* row.order: the declarations in source order (a, b, c declare URI u under three prefixes, d declares URI v)
LastOf(order, S) == order[Max({i \in 1..Len(order) : order[i] \in S})]
NsDupesFailing(r, o) ==
    LET keepU == LastOf(r.order, {"a", "b", "c"})
        want == SelectSeq(r.order, LAMBDA x : x = keepU \/ x = "d")
        wantRules == [i \in 1..Len(want) |-> <<want[i], IF want[i] = "d" THEN "v" ELSE "u">>]
    IN  IF o.out # "ok" THEN "ParseCompletes"
        ELSE IF o.nsrules # wantRules THEN "LastDeclarationOfUriWins"
        ELSE IF ToSet(o.mapping) # ToSet(wantRules) THEN "MappingEqualsEffectiveRules"
        ELSE "ok"
=============================================================================
