----------------------------- MODULE Namespaces -----------------------------
(* Generator machine for C15: histories of namespace edits with the INTENDED semantics (CSS + the property   *)
(* statement).  It decides nothing about the code; it produces the histories that are replayed, and TLC      *)
(* checks on it that the intended semantics satisfies the contract's invariants (the design is consistent).  *)
EXTENDS NamespacesContract
CONSTANTS NsPrefixes, Uris, Forms, MaxNs, MaxSels, MaxHist, Emit
VARIABLES ns, sels, nextid, hist
vars == <<ns, sels, nextid, hist>>

Clean(rs) == SelectSeq([i \in 1..Len(rs) |-> IF i \in LastOfUri(rs) THEN rs[i] ELSE <<"#", "#">>], LAMBDA x : x # <<"#", "#">>)
\* the mapping of the intended semantics: effective rules; for an ambiguous prefix the later rule
MapOf(rs) == LET e == Clean(rs)
             IN SelectSeq(e, LAMBDA x : \A j \in 1..Len(e) : e[j][1] = x[1] => (\A i \in 1..Len(e) : e[i] = x => j <= i))
UriOfPrefix(rs, p) == IF \E x \in Range(MapOf(rs)) : x[1] = p THEN (CHOOSE x \in Range(MapOf(rs)) : x[1] = p)[2] ELSE "undeclared"
\* (a type selector that is the argument of :not() is a namespaced name like any other)
PrefixOf(f) == CASE f \in {"p|e", "[p|a]", ":not(p|e)"} -> "p" [] f = "q|e" -> "q" [] f = "z|e" -> "z" [] OTHER -> "-"
ItemOf(rs, f) ==
    CASE f = "*|e" -> [uri |-> "*any*", local |-> "e", kind |-> "explicit"]
      [] f = "|e"  -> [uri |-> "", local |-> "e", kind |-> "explicit"]
      [] f \in {"e", ":not(e)"} -> [uri |-> Default(MapOf(rs)), local |-> "e", kind |-> "default"]
      [] f = "[p|a]" -> [uri |-> UriOfPrefix(rs, "p"), local |-> "a", kind |-> "explicit"]
      [] OTHER -> [uri |-> UriOfPrefix(rs, PrefixOf(f)), local |-> "e", kind |-> "explicit"]
FormOk(rs, f) == PrefixOf(f) = "-" \/ UriOfPrefix(rs, PrefixOf(f)) # "undeclared"
Used == UsedUris(sels)
Refresh(ss, rs) == [i \in 1..Len(ss) |-> IF ss[i].where = "sheet"
                       THEN [ss[i] EXCEPT !.items = [k \in 1..Len(ss[i].items) |->
                                IF ss[i].items[k].kind = "default" THEN [ss[i].items[k] EXCEPT !.uri = Default(MapOf(rs))] ELSE ss[i].items[k]]]
                       ELSE ss[i]]
Rec(a) == /\ Len(hist) < MaxHist /\ hist' = Append(hist, a)
          /\ (Emit => PrintT(<<"HIST", ToJson([h |-> Append(hist, a), s |-> <<ns, sels>>])>>))
SetNs(rs) == ns' = rs /\ sels' = Refresh(sels, rs)
RemovableAt(i) == ~(ns[i][2] \in Used /\ Cardinality({j \in 1..Len(ns) : ns[j][2] = ns[i][2]}) = 1)

AddNs(p, u, how) == /\ Len(ns) < MaxNs /\ Rec([op |-> "addns", p |-> p, u |-> u, how |-> how])
                    /\ SetNs(Clean(Append(ns, <<p, u>>))) /\ UNCHANGED nextid
InsertNs(p, u, i) == /\ Len(ns) < MaxNs /\ i <= Len(ns) /\ Rec([op |-> "insertns", p |-> p, u |-> u, i |-> i])
                     /\ SetNs(Clean(SubSeq(ns, 1, i) \o <<<<p, u>>>> \o SubSeq(ns, i + 1, Len(ns)))) /\ UNCHANGED nextid
NsSet(p, u) == /\ Rec([op |-> "nsset", p |-> p, u |-> u])
               /\ IF \E i \in 1..Len(ns) : ns[i][1] = p THEN UNCHANGED <<ns, sels>>     \* URI of a rule is read-only
                  ELSE SetNs(Clean(Append(ns, <<p, u>>)))
               /\ UNCHANGED nextid
NsDel(p) == /\ Rec([op |-> "nsdel", p |-> p])
            /\ LET c == {i \in 1..Len(ns) : ns[i][1] = p} IN
               IF c # {} /\ RemovableAt(CHOOSE i \in c : \A j \in c : j <= i)
               THEN LET k == CHOOSE i \in c : \A j \in c : j <= i
                    IN SetNs(SubSeq(ns, 1, k - 1) \o SubSeq(ns, k + 1, Len(ns)))
               ELSE UNCHANGED <<ns, sels>>
            /\ UNCHANGED nextid
\* the whole text of the sheet is assigned and REJECTED (it uses an undeclared prefix): nothing changes - in particular the mapping
\* is still the view of the @namespace rules
BadText == Rec([op |-> "badtext"]) /\ UNCHANGED <<ns, sels, nextid>>
DeleteNs(k) == /\ k <= Len(ns) /\ Rec([op |-> "deletens", k |-> k])
               /\ IF RemovableAt(k) THEN SetNs(SubSeq(ns, 1, k - 1) \o SubSeq(ns, k + 1, Len(ns))) ELSE UNCHANGED <<ns, sels>>
               /\ UNCHANGED nextid
SetPrefix(k, p) == /\ k <= Len(ns) /\ Rec([op |-> "setprefix", k |-> k, p |-> p])
                   /\ SetNs([ns EXCEPT ![k] = <<p, ns[k][2]>>]) /\ UNCHANGED nextid
AddSel(f, how) == /\ Len(sels) < MaxSels /\ Rec([op |-> "addsel", form |-> f, how |-> how])
                  /\ IF FormOk(ns, f)
                     THEN sels' = Append(sels, [id |-> nextid, ver |-> 0, where |-> "sheet", items |-> <<ItemOf(ns, f)>>]) /\ nextid' = nextid + 1
                     ELSE UNCHANGED <<sels, nextid>>
                  /\ UNCHANGED ns
SetSelText(j, f) == /\ j <= Len(sels) /\ sels[j].where = "sheet" /\ Rec([op |-> "setseltext", j |-> j, form |-> f])
                    /\ IF FormOk(ns, f) THEN sels' = [sels EXCEPT ![j].ver = @ + 1, ![j].items = <<ItemOf(ns, f)>>] ELSE UNCHANGED sels
                    /\ UNCHANGED <<ns, nextid>>
Detach(j) == /\ j <= Len(sels) /\ sels[j].where = "sheet" /\ Rec([op |-> "detach", j |-> j])
             /\ sels' = [sels EXCEPT ![j].where = "detached"] /\ UNCHANGED <<ns, nextid>>
Attach(j) == /\ j <= Len(sels) /\ sels[j].where = "detached" /\ Rec([op |-> "attach", j |-> j])
             /\ (\A k \in 1..Len(sels[j].items) : sels[j].items[k].kind = "explicit" /\ sels[j].items[k].uri \notin Special
                                                     => sels[j].items[k].uri \in Declared(ns))
             /\ sels' = Refresh([sels EXCEPT ![j].where = "sheet"], ns) /\ UNCHANGED <<ns, nextid>>

Init == ns = <<>> /\ sels = <<>> /\ nextid = 1 /\ hist = <<>>
Next == \/ \E p \in NsPrefixes, u \in Uris : (\E h \in {"text", "object"} : AddNs(p, u, h)) \/ NsSet(p, u) \/ (\E i \in 0..MaxNs : InsertNs(p, u, i))
        \/ \E p \in NsPrefixes : NsDel(p) \/ (\E k \in 1..MaxNs : SetPrefix(k, p))
        \/ \E k \in 1..MaxNs : DeleteNs(k)
        \/ \E f \in Forms : (\E h \in {"rule", "object", "media", "mediatext"} : AddSel(f, h)) \/ (\E j \in 1..MaxSels : SetSelText(j, f))
        \/ \E j \in 1..MaxSels : Detach(j) \/ Attach(j)
        \/ BadText
Spec == Init /\ [][Next]_vars
View == <<ns, sels>>

\* the intended semantics keeps the contract's invariants
Obs == [nsrules |-> ns, mapping |-> MapOf(ns), sels |-> sels]
DesignMappingOK == MappingOK(ns, MapOf(ns))
DesignUsedDeclared == UsedUris(sels) \subseteq Declared(ns)
DesignDefaultFollowed == \A s \in Range(Attached(sels)) : \A i \in 1..Len(s.items) :
                            s.items[i].kind = "default" => s.items[i].uri = Default(MapOf(ns))
EmitWalk == Len(hist) = MaxHist => PrintT(<<"WALK", ToJson(hist)>>)
EmitAlphabet == hist = <<>> => PrintT(<<"ALPHABET", ToJson({[op |-> "n/a"]})>>)
=============================================================================
