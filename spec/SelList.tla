------------------------------ MODULE SelList ------------------------------
(* Machine for the list half of C16: histories of appendSelector / selectorText assignment on one SelectorList. *)
EXTENDS SelectorContract
CONSTANTS Sels, MaxLen, MaxHist, Emit
VARIABLES list, hist
vars == <<list, hist>>
SB == Sels \cup {BadSel}
Texts == {<<a>> : a \in SB} \cup {<<a, b>> : a \in SB, b \in SB} \cup {<<a, b, c>> : a \in Sels, b \in SB, c \in Sels}
Alphabet == {[op |-> "append", s |-> s, mode |-> m] : s \in SB, m \in {"raise", "log"}}
            \cup {[op |-> "settext", ss |-> t, mode |-> m] : t \in Texts, m \in {"raise", "log"}}
            \cup {[op |-> "setitem", i |-> i, s |-> s, mode |-> "raise"] : i \in 1..MaxLen, s \in SB}
Act(a) == /\ Len(hist) < MaxHist
          /\ (a.op = "setitem" => a.i <= Len(list) /\ a.s \notin Range(list))      \* (a selector already present: the property is silent)
          /\ list' = ListRef(list, a).list
          /\ hist' = Append(hist, a)
          /\ (Emit => PrintT(<<"HIST", ToJson([h |-> Append(hist, a), s |-> list])>>))
Init == list = <<>> /\ hist = <<>>
Next == \E a \in Alphabet : Act(a)
Spec == Init /\ [][Next]_vars
Bounded == Len(list) <= MaxLen
View == list
NoDuplicatesAfterAppend == [][hist' # hist /\ hist'[Len(hist')].op = "append" /\ ListRef(list, hist'[Len(hist')]).ok
                              => Cardinality({i \in 1..Len(list') : list'[i] = hist'[Len(hist')].s}) = 1
                                 /\ list'[Len(list')] = hist'[Len(hist')].s]_vars
RefAllowed == [][hist' # hist => ListFailing(list, hist'[Len(hist')], "ok", list') \in {"ok", "InvalidMemberRejectsWholeList"}]_vars
EmitWalk == Len(hist) = MaxHist => PrintT(<<"WALK", ToJson(hist)>>)
EmitAlphabet == hist = <<>> => PrintT(<<"ALPHABET", ToJson({[op |-> "n/a"]})>>)
=============================================================================
