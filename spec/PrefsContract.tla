---------------------------- MODULE PrefsContract ----------------------------
(***************************************************************************)
(* C06: what the serializer preferences document, as one operator on the   *)
(* abstract stylesheet of SheetASTContract:                                *)
(*      Effect(P, sheet)  = the DOM a reparse of the output must give      *)
(* plus the clauses on spelling, last semicolon, layout and restoration.   *)
(* P is a record with one field per documented preference (lineNumbers is  *)
(* not a CSS serialisation and is left out); string-valued layout          *)
(* preferences are named ("none", "sp", "sp2", "sp4", "tab", "lf", "crlf").*)
(* Declaration blocks know their context (style, page, margin, fontface)   *)
(* because validity does.                                                  *)
(***************************************************************************)
EXTENDS SheetASTContract, FiniteSetsExt

Default == [defaultAtKeyword |-> TRUE, defaultPropertyName |-> TRUE, defaultPropertyPriority |-> TRUE, importHrefFormat |-> "none",
            indent |-> "sp4", indentClosingBrace |-> TRUE, indentSpecificities |-> FALSE, keepAllProperties |-> TRUE, keepComments |-> TRUE,
            keepEmptyRules |-> FALSE, keepUnknownAtRules |-> TRUE, keepUsedNamespaceRulesOnly |-> FALSE, lineSeparator |-> "lf",
            listItemSpacer |-> "sp", minimizeColorHash |-> TRUE, normalizedVarNames |-> TRUE, omitLastSemicolon |-> TRUE,
            omitLeadingZero |-> FALSE, paranthesisSpacer |-> "sp", propertyNameSpacer |-> "sp", resolveVariables |-> TRUE,
            selectorCombinatorSpacer |-> "sp", spacer |-> "sp", validOnly |-> FALSE]
Fields == DOMAIN Default
Spacers == {"none", "sp", "sp2"}
Dom == [defaultAtKeyword |-> BOOLEAN, defaultPropertyName |-> BOOLEAN, defaultPropertyPriority |-> BOOLEAN,
        importHrefFormat |-> {"none", "string", "uri"}, indent |-> {"none", "sp2", "sp4", "tab"}, indentClosingBrace |-> BOOLEAN,
        indentSpecificities |-> BOOLEAN, keepAllProperties |-> BOOLEAN, keepComments |-> BOOLEAN, keepEmptyRules |-> BOOLEAN,
        keepUnknownAtRules |-> BOOLEAN, keepUsedNamespaceRulesOnly |-> BOOLEAN, lineSeparator |-> {"none", "lf", "crlf"},
        listItemSpacer |-> Spacers, minimizeColorHash |-> BOOLEAN, normalizedVarNames |-> BOOLEAN, omitLastSemicolon |-> BOOLEAN,
        omitLeadingZero |-> BOOLEAN, paranthesisSpacer |-> Spacers, propertyNameSpacer |-> Spacers, resolveVariables |-> BOOLEAN,
        selectorCombinatorSpacer |-> Spacers, spacer |-> Spacers, validOnly |-> BOOLEAN]
LayoutFields == {"indent", "indentClosingBrace", "indentSpecificities", "lineSeparator", "listItemSpacer", "paranthesisSpacer",
                 "propertyNameSpacer", "selectorCombinatorSpacer", "spacer"}
\* the minified preset (Preferences.useMinified)
Minified == [Default EXCEPT !.importHrefFormat = "string", !.indent = "none", !.keepComments = FALSE, !.keepEmptyRules = FALSE,
                            !.keepUnknownAtRules = FALSE, !.keepUsedNamespaceRulesOnly = TRUE, !.lineSeparator = "none",
                            !.listItemSpacer = "none", !.minimizeColorHash = TRUE, !.omitLastSemicolon = TRUE, !.omitLeadingZero = TRUE,
                            !.paranthesisSpacer = "none", !.propertyNameSpacer = "none", !.selectorCombinatorSpacer = "none",
                            !.spacer = "none", !.validOnly = FALSE]
\* P with every layout preference back at its default
LayoutFree(P) == [f \in Fields |-> IF f \in LayoutFields THEN Default[f] ELSE P[f]]

\* ---- validity of a declaration in its context (the vocabulary of the generator; CSS 2.1 / @font-face descriptors) -----
IsDecl(x) == x.k = "decl"
IsLen(c) == c.t \in {"DIMENSION", "PERCENTAGE"} \/ (c.t = "NUMBER" /\ c.x = "0")
ValidValue(name, v) ==
    CASE name \in {"left", "top", "right", "bottom", "width", "height"} -> Len(v) = 1 /\ IsLen(v[1])
      [] name = "margin"      -> Len(v) \in 1..4 /\ \A i \in 1..Len(v) : IsLen(v[i])
      [] name = "color"       -> Len(v) = 1 /\ v[1].t = "COLOR_VALUE"
      [] name = "content"     -> Len(v) >= 1 /\ \A i \in 1..Len(v) : v[i].t = "STRING"
      [] name = "font-family" -> Len(v) >= 1 /\ \A i \in 1..Len(v) : IF i % 2 = 1 THEN v[i].t \in {"IDENT", "STRING"} ELSE v[i] = [t |-> "op", x |-> ","]
      [] OTHER -> FALSE
ValidIn(ctx, name, v) ==
    IF ctx = "fontface" THEN (name = "font-family" /\ ValidValue(name, v)) \/ (name = "src" /\ Len(v) = 1 /\ v[1].t = "URI")
    ELSE ValidValue(name, v)

\* ---- variables: the last definition of a name in the sheet wins; references are resolved component-wise ---------------
\* a reference with a fallback resolves like one without when the variable is defined, and is kept as written when it is not
\* (variable names are case-insensitive: var(W) refers to w)
VarRef == [x \in {"var(c)", "var(w)", "var(W)", "var(nope)", "var(w, 2px)", "var(nope, 2px)"} |->
              CASE x = "var(c)" -> "c" [] x \in {"var(w)", "var(W)", "var(w, 2px)"} -> "w" [] OTHER -> "nope"]
VarDecls(sheet) == FlattenSeq([i \in 1..Len(sheet) |-> IF sheet[i].k = "variables" THEN sheet[i].vars ELSE <<>>])
Defined(V, n) == \E i \in 1..Len(V) : V[i].name = n
ValueOf(V, n) == V[Max({i \in 1..Len(V) : V[i].name = n})].value
ResolveComp(V, c) == IF c.t = "VARIABLE" /\ c.x \in DOMAIN VarRef /\ Defined(V, VarRef[c.x]) THEN ValueOf(V, VarRef[c.x]) ELSE <<c>>
Resolve(V, v) == FlattenSeq([i \in 1..Len(v) |-> ResolveComp(V, v[i])])

\* ---- declaration blocks ----------------------------------------------------------------------------------------------------
DeclIdx(b, n) == {i \in 1..Len(b) : IsDecl(b[i]) /\ b[i].name = n}
EffIdx(b, n) == LET I == DeclIdx(b, n)
                    Imp == {i \in I : b[i].prio # ""}
                IN  IF Imp # {} THEN Max(Imp) ELSE Max(I)          \* the cascade rule of C10: last important, else last
PickIdx(b, K) == LET s == SetToSortSeq(K, LAMBDA x, y : x < y) IN [j \in 1..Len(s) |-> b[s[j]]]
KeepSet(P, V, ctx, b) == {i \in 1..Len(b) :
                    IF IsDecl(b[i])
                    THEN /\ P.keepAllProperties \/ i = EffIdx(b, b[i].name)
                         /\ P.validOnly => ValidIn(ctx, b[i].name, IF P.resolveVariables THEN Resolve(V, b[i].value) ELSE b[i].value)   \* the value as written
                    ELSE IF b[i].k = "unknown" THEN P.keepUnknownAtRules          \* an unknown at-rule nested in the block
                    ELSE IsComment(b[i]) => P.keepComments}
EffBody(P, V, ctx, b) ==
    LET kept == PickIdx(b, KeepSet(P, V, ctx, b))
    IN  [i \in 1..Len(kept) |-> IF IsDecl(kept[i]) /\ P.resolveVariables THEN [kept[i] EXCEPT !.value = Resolve(V, @)] ELSE kept[i]]

\* ---- namespaces: a namespace rule is used when a selector of a style rule (at any depth) names its URI through a prefix, --
\* ---- or through the default namespace by an unprefixed type selector                                                      --
SelPrefixes == [s \in {"p|a", "p|*", "a:not(p|b)", "[p|b]", "a[p|b=v]", "p|a > .c", "q|a", "[q|b]", "a:not(q|b)", "a", "a b", "a > b", "*", "a.c"} |->
    CASE s \in {"p|a", "p|*", "[p|b]", "p|a > .c"} -> {"p"}
      [] s \in {"a:not(p|b)", "a[p|b=v]"} -> {"p", ""}
      [] s \in {"q|a", "[q|b]"} -> {"q"}
      [] s = "a:not(q|b)" -> {"q", ""}
      [] OTHER -> {""}]
PrefixesOf(s) == IF s \in DOMAIN SelPrefixes THEN SelPrefixes[s] ELSE {}
RECURSIVE UsedPrefixes(_)
UsedPrefixes(rules) == UNION {CASE rules[i].k = "style" -> UNION {PrefixesOf(rules[i].sels[j]) : j \in 1..Len(rules[i].sels)}
                                [] rules[i].k = "media" -> UsedPrefixes(rules[i].rules)
                                [] OTHER -> {} : i \in 1..Len(rules)}
NsUris(sheet, p) == {sheet[i].uri : i \in {j \in 1..Len(sheet) : sheet[j].k = "namespace" /\ sheet[j].prefix = p}}
UsedUris(sheet) == UNION {NsUris(sheet, p) : p \in UsedPrefixes(sheet)}

\* ---- comments inside a selector or inside the prelude of an unknown at-rule (vocabulary of the generator): dropping the comment
\* ---- leaves the white space around it, so the tokens it separated stay separate
StripSel == [s \in {"a /*c*/b", "a/*c*/ b"} |-> "a b"]
StripUnknown == [t \in {"@x y /*c*/ z;", "@variables { /*v*/ c: red; /*w*/ w: 1px }"} |->
                    IF t = "@x y /*c*/ z;" THEN "@x y z;" ELSE "@variables { c: red; w: 1px }"]
NoCommentSel(s) == IF s \in DOMAIN StripSel THEN StripSel[s] ELSE s
NoCommentText(t) == IF t \in DOMAIN StripUnknown THEN StripUnknown[t] ELSE t

\* ---- rules: the result is a sequence of zero or one rule ----------------------------------------------------------------------
\* Dv is a set of NAMED DEVIATIONS of the implementation from the documented effect; the contract is Dv = {}.
\*   "empty-nonstyle-never-kept"  an @page, margin, @font-face rule with nothing in it is dropped even when keepEmptyRules is on
NoContent(r) == CASE r.k \in {"style", "fontface"} -> r.body = <<>>
                  [] r.k = "page" -> r.body = <<>> /\ r.margins = <<>>
                  [] r.k = "media" -> r.rules = <<>>
                  [] r.k = "variables" -> r.vars = <<>>
                  [] OTHER -> FALSE
KeepsEmpty(Dv, P, k) == P.keepEmptyRules /\ ~("empty-nonstyle-never-kept" \in Dv /\ k \in {"page", "margin", "fontface", "variables"})
EffMargins(Dv, P, V, ms) == LET e == [i \in 1..Len(ms) |-> [ms[i] EXCEPT !.body = EffBody(P, V, "margin", @)]]
                            IN  SelectSeq(e, LAMBDA m : m.body # <<>> \/ KeepsEmpty(Dv, P, "margin"))
RECURSIVE EffRule(_, _, _, _)
EffRules(Dv, P, S, rules) == FlattenSeq([i \in 1..Len(rules) |-> EffRule(Dv, P, S, rules[i])])
EffRule(Dv, P, S, r) ==
    LET V == VarDecls(S)
        r2 == CASE r.k = "style"    -> [r EXCEPT !.body = EffBody(P, V, "style", @),
                                                 !.sels = IF P.keepComments THEN @ ELSE [i \in 1..Len(@) |-> NoCommentSel(@[i])]]
                [] r.k \in {"unknown", "variables"} -> [r EXCEPT !.text = IF P.keepComments THEN @ ELSE NoCommentText(@)]
                [] r.k = "fontface" -> [r EXCEPT !.body = EffBody(P, V, "fontface", @)]
                [] r.k = "page"     -> [r EXCEPT !.body = EffBody(P, V, "page", @), !.margins = EffMargins(Dv, P, V, @)]
                [] r.k = "media"    -> [r EXCEPT !.rules = EffRules(Dv, P, S, @)]
                [] r.k = "import"   -> [r EXCEPT !.hreftype = IF P.importHrefFormat = "none" THEN @ ELSE P.importHrefFormat]
                [] OTHER -> r
        dropped == \/ r.k = "comment" /\ ~P.keepComments
                   \/ r.k = "unknown" /\ ~P.keepUnknownAtRules
                   \/ r.k = "namespace" /\ P.keepUsedNamespaceRulesOnly /\ r.uri \notin UsedUris(S)
                   \/ r.k = "variables" /\ P.resolveVariables
                   \/ NoContent(r2) /\ ~KeepsEmpty(Dv, P, r.k)
    IN  IF dropped THEN <<>> ELSE <<r2>>
EffectD(Dv, P, sheet) == EffRules(Dv, P, sheet, sheet)
Effect(P, sheet) == EffectD({}, P, sheet)

\* every declaration block of a sheet, at any depth, with its context
RECURSIVE BlocksOf(_)
BlocksOf(rules) == FlattenSeq([i \in 1..Len(rules) |->
    CASE rules[i].k = "style"    -> <<[ctx |-> "style", body |-> rules[i].body]>>
      [] rules[i].k = "fontface" -> <<[ctx |-> "fontface", body |-> rules[i].body]>>
      [] rules[i].k = "page"     -> <<[ctx |-> "page", body |-> rules[i].body]>> \o [j \in 1..Len(rules[i].margins) |-> [ctx |-> "margin", body |-> rules[i].margins[j].body]]
      [] rules[i].k = "media"    -> BlocksOf(rules[i].rules)
      [] OTHER -> <<>>])
\* blocks in which the last item WRITTEN is a declaration although it is not the last item of the block (what follows was filtered out)
FilteredTail(P, S) == LET V == VarDecls(S)
                          bs == BlocksOf(S)
                      IN  {i \in 1..Len(bs) : LET K == KeepSet(P, V, bs[i].ctx, bs[i].body)
                                              IN  K # {} /\ IsDecl(bs[i].body[Max(K)]) /\ Max(K) # Len(bs[i].body)}

\* ---- spelling preferences: every spelled item of the output is either the normalised or the literal form ---------------------
\* an item is [kind, seen, on, off]: `on` the spelling when the governing preference is TRUE, `off` the admissible spellings when FALSE
Governs(P, it) ==
    CASE it.kind = "atkeyword" -> P.defaultAtKeyword \/ it.on = "@charset"     \* @charset is byte-exact by definition
      [] it.kind = "propname"  -> P.defaultPropertyName /\ ~P.keepAllProperties   \* "only used if keepAllProperties == False"
      [] it.kind = "priority"  -> P.defaultPropertyPriority
      [] it.kind = "hash"      -> P.minimizeColorHash
      [] it.kind = "number"    -> P.omitLeadingZero
      [] it.kind = "varname"   -> P.normalizedVarNames
      [] OTHER -> TRUE
SpelledOk(P, it) == IF Governs(P, it) THEN it.seen = it.on ELSE it.seen \in ToSet(it.off)
\* declaration blocks of the output: how each one ends ("semi": `;` directly before `}`; "decl": a declaration without `;`)
SemisOk(P, blocks) == \A i \in 1..Len(blocks) : blocks[i] # (IF P.omitLastSemicolon THEN "semi" ELSE "decl")
\* named deviation "semicolon-kept-before-filtered-tail": the `;` of the last written declaration stays when a filtered item followed it
SemisExplained(P, blocks, S) == /\ P.omitLastSemicolon
                                /\ Cardinality({i \in 1..Len(blocks) : blocks[i] = "semi"}) <= Cardinality(FilteredTail(P, S))

\* A named deviation (a known finding) never hides another failure of the same observation: it is reported only when
\* every other clause holds.
PrefsFailing(row, o) ==
    LET P == row.prefs
        domOk  == o.dom = Effect(P, o.srcdom)
        domDev == o.dom = EffectD({"empty-nonstyle-never-kept"}, P, o.srcdom)
        semOk  == SemisOk(P, o.blocks)
        semDev == SemisExplained(P, o.blocks, o.srcdom)
    IN
    IF o.out # "ok" THEN "OutputIsProduced"
    ELSE IF o.reparse # "ok" \/ o.relog # 0 THEN "OutputIsWellFormedCss"
    ELSE IF ~domOk /\ ~domDev THEN "ReparseIsDomAfterDocumentedEffects"
    ELSE IF \E i \in 1..Len(o.spelled) : ~SpelledOk(P, o.spelled[i]) THEN "SpellingFollowsPreference"
    ELSE IF ~semOk /\ ~semDev THEN "LastSemicolonFollowsPreference"
    ELSE IF o.freeout # "ok" THEN "OutputIsProduced"
    ELSE IF o.toks # o.toksfree THEN "LayoutPreferencesChangeWhitespaceOnly"
    ELSE IF ~o.restored THEN "UseDefaultsRestoresDefaultOutput"
    ELSE IF ~domOk THEN "ReparseIsDomAfterDocumentedEffects|deviation:empty-nonstyle-never-kept"
    ELSE IF ~semOk THEN "LastSemicolonFollowsPreference|deviation:semicolon-kept-before-filtered-tail"
    ELSE "ok"

\* ---- design-level lemmas (checked by TLC over the generated sheets and assignments) -----------------------------------------------
EffectIdempotent(P, sheet) == Effect(P, Effect(P, sheet)) = Effect(P, sheet) \/ P.resolveVariables \/ P.keepUsedNamespaceRulesOnly
DefaultOnlyDropsEmpties(sheet) == Effect([Default EXCEPT !.keepEmptyRules = TRUE, !.resolveVariables = FALSE], sheet) = sheet
LayoutIsContentNeutral(P, sheet) == Effect(P, sheet) = Effect(LayoutFree(P), sheet)
NothingAppears(P, sheet) == Len(Effect(P, sheet)) <= Len(sheet)
=============================================================================
