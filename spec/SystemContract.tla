--------------------------- MODULE SystemContract ---------------------------
(***************************************************************************)
(* Composition of the per-object contracts on ONE stylesheet               *)
(*                                                                         *)
(*     @media <ml> { <s1> { <d1> } }                                       *)
(*     <s2> { <d2> }                                                       *)
(*                                                                         *)
(* whose components are reached through the sheet (rule.style, rule.media, *)
(* rule.selectorText).  A step edits exactly one component through the     *)
(* public DOM.  The component's own contract (DeclBlockContract,           *)
(* MediaListContract) says what the edit does to that component; this      *)
(* module adds what the composition owes on top of it:                     *)
(*   Frame      - every other component is unchanged by the step           *)
(*   Skeleton   - nested edits never add, lose or reorder a rule (C09)     *)
(*   ParentMirror - after the step every rule, block and property still    *)
(*                names its container (C09)                                *)
(*   SheetTextListsComponents - the sheet's serialisation reparses to the  *)
(*                same components (C09 "reparsing never loses", C03)       *)
(*   RejectedSheetUnchanged - a rejected edit leaves the whole sheet text  *)
(*                as it was (C11: "its owning rule and its stylesheet")    *)
(* Clauses are returned by name; "ok" when all hold.  Clauses that only    *)
(* the component contracts state (prefix "Component:") and Frame are       *)
(* classified by the check (checks/c09.py) before anything is reported.    *)
(***************************************************************************)
EXTENDS Naturals, Sequences, FiniteSets, TLC, Json

D == INSTANCE DeclBlockContract
M == INSTANCE MediaListContract

DOMExc == D!DOMExc
Targets == {"d1", "d2", "ml", "s1", "s2"}
BadSel == "#badsel"
SelNorm(s) == CASE s = "a , b" -> "a, b" [] s = "a>b" -> "a > b" [] OTHER -> s

\* ---- reference semantics of one step on the product state ---------------------------------------
\* st = [d1 |-> list, d2 |-> list, ml |-> list, s1 |-> text, s2 |-> text]
RefSel(old, a) == IF a.sel = BadSel THEN [v |-> old, out |-> "SyntaxErr"] ELSE [v |-> SelNorm(a.sel), out |-> "ok"]
RefStep(st, tgt, a) ==
    CASE tgt = "d1" -> [st |-> [st EXCEPT !.d1 = D!Ref(st.d1, a).list], out |-> D!Ref(st.d1, a).out]
      [] tgt = "d2" -> [st |-> [st EXCEPT !.d2 = D!Ref(st.d2, a).list], out |-> D!Ref(st.d2, a).out]
      [] tgt = "ml" -> [st |-> [st EXCEPT !.ml = M!Ref(st.ml, a).list], out |-> M!Ref(st.ml, a).out]
      [] tgt = "s1" -> [st |-> [st EXCEPT !.s1 = RefSel(st.s1, a).v], out |-> RefSel(st.s1, a).out]
      [] tgt = "s2" -> [st |-> [st EXCEPT !.s2 = RefSel(st.s2, a).v], out |-> RefSel(st.s2, a).out]

\* ---- projection of an observation onto the product state ----------------------------------------
Abs(o) == [d1 |-> o.d1.list, d2 |-> o.d2.list, ml |-> o.ml.list, s1 |-> o.s1, s2 |-> o.s2]

ComponentClause(pre, ev) ==
    CASE ev.target = "d1" -> D!FirstFailing(pre.d1.list, ev.a, [list |-> ev.post.d1.list, out |-> ev.out, ret |-> ev.ret])
      [] ev.target = "d2" -> D!FirstFailing(pre.d2.list, ev.a, [list |-> ev.post.d2.list, out |-> ev.out, ret |-> ev.ret])
      [] ev.target = "ml" -> M!FirstFailing(pre.ml.list, ev.a, [list |-> ev.post.ml.list, out |-> ev.out, ret |-> ev.ret], "raise")
      [] ev.target \in {"s1", "s2"} ->
            LET old == IF ev.target = "s1" THEN pre.s1 ELSE pre.s2
                new == IF ev.target = "s1" THEN ev.post.s1 ELSE ev.post.s2
            IN  IF ev.out \in DOMExc THEN (IF new = old THEN "ok" ELSE "RejectedUnchanged")
                ELSE IF ev.a.sel = BadSel THEN "ok"
                ELSE IF ev.out # "ok" THEN "UnexpectedOutcome"
                ELSE IF new # SelNorm(ev.a.sel) THEN "SelectorAsModel" ELSE "ok"

FrameClause(pre, ev) ==
    LET p == Abs(pre)  q == Abs(ev.post)
    IN  IF ev.target # "d1" /\ (q.d1 # p.d1 \/ ev.post.d1.text # pre.d1.text) THEN "Frame:d1"
        ELSE IF ev.target # "d2" /\ (q.d2 # p.d2 \/ ev.post.d2.text # pre.d2.text) THEN "Frame:d2"
        ELSE IF ev.target # "ml" /\ (q.ml # p.ml \/ ev.post.ml.text # pre.ml.text) THEN "Frame:ml"
        ELSE IF ev.target # "s1" /\ q.s1 # p.s1 THEN "Frame:s1"
        ELSE IF ev.target # "s2" /\ q.s2 # p.s2 THEN "Frame:s2"
        ELSE "ok"

StepClause(pre, ev) ==
    IF ev.out \in DOMExc /\ ev.post.sheettext # pre.sheettext THEN "RejectedSheetUnchanged"
    ELSE IF ComponentClause(pre, ev) # "ok" THEN "Component:" \o ComponentClause(pre, ev)
    ELSE FrameClause(pre, ev)

Skeleton == <<"media", "media/style", "style">>
StateClause(o) ==
    IF o.skeleton # Skeleton THEN "Skeleton"
    ELSE IF \E i \in 1..Len(o.parents) : o.parents[i] # "ok" THEN "ParentMirror"
    ELSE IF o.re.skeleton # Skeleton THEN "SheetTextKeepsEveryRule"
    ELSE IF o.re.d1 # o.d1.list \/ o.re.d2 # o.d2.list \/ o.re.ml # M!Meaning(o.ml.list)
            \/ o.re.s1 # o.s1 \/ o.re.s2 # o.s2 THEN "SheetTextListsComponents"
    ELSE IF D!ViewClause(o.d1) # "ok" THEN "View:d1:" \o D!ViewClause(o.d1)
    ELSE IF D!ViewClause(o.d2) # "ok" THEN "View:d2:" \o D!ViewClause(o.d2)
    ELSE IF M!ViewClause(o.ml) # "ok" THEN "View:ml:" \o M!ViewClause(o.ml)
    ELSE "ok"
=============================================================================
