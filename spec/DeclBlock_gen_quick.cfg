SPECIFICATION Spec
CONSTANTS
  Emit = TRUE
  Lits = {"color", "COLOR", "c~olor", "left"}
  Values = {"red", "blue"}
  Prios = {"", "!important", "!IMPORTANT"}
  MaxLen = 3
  MaxHist = 5
CONSTRAINT Bounded
VIEW View
INVARIANT EmitAlphabet
