SPECIFICATION Spec
CONSTANTS
  MaxComps = 3
  MaxDecls = 3
  MaxStmts = 4
  Full3 = TRUE
  Emit = TRUE
INVARIANT AlwaysWellOrdered
INVARIANT StripIdempotent
INVARIANT EmitRow
