SPECIFICATION Spec
INVARIANT Satisfiable
INVARIANT EmitRow
