SPECIFICATION Spec
CONSTANTS
  Emit = FALSE
  MaxHist = 5
  Deviations = TRUE
VIEW View
INVARIANT HistoryFree
