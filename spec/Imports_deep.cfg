SPECIFICATION Spec
CONSTANTS
  MaxEdges = 6
  MaxPerFile = 2
  Emit = TRUE
  Forms = {"rel", "dot", "root", "abs", "schemerel", "up"}
  Medias = {"", "print", "tv", "all and (color)", "not all"}
INVARIANT RelToInvertsResolve
INVARIANT SpecFlattenMeetsContract
INVARIANT EmitWorld
