------------------------------ MODULE Profiles ------------------------------
(* Machine explored by TLC: histories of addProfile / addProfiles / removeProfile / removeProfile(all) /   *)
(* defaultProfiles assignments.  Besides the contract layer (contents) it carries an ALGORITHM layer that  *)
(* mirrors what cssutils.profiles.Profiles does (a macro cache `used` that addProfiles updates without     *)
(* re-expanding earlier profiles and that removeProfile(all) does not reset; per-profile compiled          *)
(* versions `comp`).  With Deviations = TRUE TLC exhibits the histories where the algorithm's observation  *)
(* is not F(contents); with FALSE (the repaired algorithm) the invariant HistoryFree holds.                *)
EXTENDS ProfilesContract
CONSTANTS MaxHist, Deviations
CONSTANT Emit
VARIABLES names, defaults, used, comp, hist
vars == <<names, defaults, used, comp, hist>>

MacroNames == {"integer", "mynew", "absolute_size", "uri"}
BaseUsed == [m \in MacroNames |-> BaseLit(m)]
Uses(p) == CASE p = "P1" -> {"integer", "mynew"} [] p = "P1x" -> {"integer"} [] p = "P2" -> {"integer", "absolute_size"} [] p = "P3" -> {"integer", "mynew"}
             [] p = "P4" -> {"integer"} [] p = "P5" -> {"uri"} [] p = "B" -> {"integer", "absolute_size", "uri"} [] OTHER -> {}
Update(u, p) == [m \in MacroNames |-> IF Defines(p, m) THEN MacrosOf(p)[m] ELSE u[m]]
RECURSIVE FoldUpdate(_, _)
FoldUpdate(u, ps) == IF ps = <<>> THEN u ELSE FoldUpdate(Update(u, ps[1]), Tail(ps))
Compile(p, u) == [m \in Uses(p) |-> u[m]]
ResetAll(ns, u) == [p \in Range(ns) |-> Compile(p, u)]
Overlaps(p, u) == \E m \in MacroNames : Defines(p, m)      \* every macro name is always present in the cache

\* algorithm layer ------------------------------------------------------------------------------------
AlgAdd(p) ==
    LET ns == Append(names, p)
        u  == FoldUpdate(BaseUsed, ns)
    IN  IF Overlaps(p, used)
        THEN /\ used' = u /\ comp' = ResetAll(ns, u)                      \* _resetProperties(newMacros)
        ELSE /\ used' = used /\ comp' = [q \in Range(ns) |-> IF q = p THEN Compile(p, used) ELSE comp[q]]
AlgAddBatch(ps) ==
    LET u  == FoldUpdate(used, ps)
        ns == names \o ps
    IN  /\ used' = (IF Deviations THEN u ELSE FoldUpdate(BaseUsed, ns))
        /\ comp' = IF Deviations
                   THEN [q \in Range(ns) |-> IF q \in Range(ps) THEN Compile(q, u) ELSE comp[q]]   \* earlier profiles keep stale versions
                   ELSE ResetAll(ns, FoldUpdate(BaseUsed, ns))
AlgRemove(p) ==
    LET ns == SelectSeq(names, LAMBDA x : x # p)
        u  == FoldUpdate(BaseUsed, ns)
    IN  IF \E m \in MacroNames : Defines(p, m)
        THEN used' = u /\ comp' = ResetAll(ns, u)
        ELSE used' = used /\ comp' = [q \in Range(ns) |-> comp[q]]
AlgRemoveAll == /\ used' = (IF Deviations THEN used ELSE BaseUsed)      \* the macro cache survives removeProfile(all=True)
                /\ comp' = [q \in {} |-> 0]

Step(a) == /\ Len(hist) < MaxHist
           /\ names' = Ref([names |-> names, defaults |-> defaults], a).names
           /\ defaults' = Ref([names |-> names, defaults |-> defaults], a).defaults
           /\ hist' = Append(hist, a)
           /\ (Emit => PrintT(<<"HIST", ToJson([h |-> Append(hist, a), s |-> <<names, defaults, used>>])>>))

Free(p) == ~Registered(names, Base(p))
AddProfile(p)    == p \in Custom /\ Free(p) /\ Step([op |-> "add", p |-> p]) /\ AlgAdd(p)
AddProfiles(ps)  == /\ \A i \in 1..Len(ps) : ps[i] \in Custom /\ Free(ps[i])
                    /\ Base(ps[1]) # Base(ps[2])
                    /\ Step([op |-> "addbatch", ps |-> ps]) /\ AlgAddBatch(ps)
AddBuiltin       == "B" \notin Range(names) /\ Step([op |-> "addbuiltin"]) /\ AlgAddBatch(<<"B">>)
RemoveProfile(p) == p \in Range(names) /\ p # "B" /\ p # defaults /\ Step([op |-> "remove", p |-> p]) /\ AlgRemove(p)
RemoveUnknown(p) == Free(p) /\ Step([op |-> "remove", p |-> p]) /\ UNCHANGED <<used, comp>>
RemoveAll        == defaults = "none" /\ Step([op |-> "removeall"]) /\ AlgRemoveAll
SetDefaults(d)   == (d = "none" \/ d \in Range(names)) /\ Step([op |-> "setdefaults", d |-> d]) /\ UNCHANGED <<used, comp>>

\* batches: every ordered pair of the macro-defining profiles, and each of the others once in front of and once behind one of them
MacroProfiles == {"P1", "P2", "P3", "P5"}
Pairs == ({<<p, q>> : p \in MacroProfiles, q \in MacroProfiles} \ {<<p, p>> : p \in Custom})
         \cup {<<"P4", "P1">>, <<"P2", "P4">>, <<"P6", "P2">>, <<"P5", "P6">>, <<"P1x", "P2">>, <<"P3", "P1x">>,
               \* a batch whose only macro ("mynew") shadows a macro of a REGISTERED profile (P1) and no predefined one
               <<"P3", "P4">>, <<"P6", "P3">>}
Init == /\ names = <<"B">> /\ defaults = "none" /\ hist = <<>>
        /\ used = FoldUpdate(BaseUsed, <<"B">>) /\ comp = ResetAll(<<"B">>, FoldUpdate(BaseUsed, <<"B">>))
Next == \/ \E p \in Custom : AddProfile(p) \/ RemoveProfile(p) \/ RemoveUnknown(p)
        \/ \E ps \in Pairs : AddProfiles(ps)
        \/ AddBuiltin \/ RemoveAll
        \/ \E d \in Custom \cup {"B", "none"} : SetDefaults(d)
Spec == Init /\ [][Next]_vars
View == <<names, defaults, used, comp>>

\* what the algorithm layer would show for a probe
AlgAccepted(id) ==
    IF id \in {"none"} THEN {}
    ELSE IF id = "B.color" THEN (IF Registered(names, "B") THEN {"red"} ELSE {})
    ELSE IF id = "P6.f" THEN (IF Registered(names, "P6") THEN {"p6f"} ELSE {})
    ELSE IF id = "P1.b" /\ "P1x" \in Range(names) THEN {"p1x"}
    ELSE (IF Registered(names, Owner(id)) THEN {comp[CHOOSE n \in Range(names) : Base(n) = Owner(id)][MacroOf(id)]} ELSE {})
         \cup (IF id = "B.z" /\ Registered(names, "P4") THEN {"p4z"} ELSE {})
\* C14 on the design: the algorithm's observation is a function of the contents
HistoryFree == \A id \in ProbeIds : AlgAccepted(id) = F(names, id)
\* add then remove restores every verdict (consequence, stated as in the property)
AddRemoveRestores ==
    [][\A p \in Custom : (names' = names /\ hist' # hist) => \A id \in ProbeIds : F(names', id) = F(names, id)]_vars
RejectedUnchanged == [][hist' # hist /\ Ref([names |-> names, defaults |-> defaults], hist'[Len(hist')]).out # "ok"
                        => names' = names /\ defaults' = defaults]_vars
TypeOK == \A i, j \in 1..Len(names) : i # j => names[i] # names[j]

EmitWalk == Len(hist) = MaxHist => PrintT(<<"WALK", ToJson(hist)>>)
EmitAlphabet == hist = <<>> => PrintT(<<"ALPHABET", ToJson({[op |-> "n/a"]})>>)
=============================================================================
