SPECIFICATION Spec
CONSTANTS
  Emit = TRUE
  Deviations = FALSE
  MaxLen = 3
  MaxHist = 4
  Templates <- TemplatesThorough
  KidKinds = {"style", "comment", "import", "margin", "media", "fontface"}
  Texts <- TextsAll
CONSTRAINT Bounded
VIEW View
INVARIANT EmitAlphabet
