---------------------------- MODULE DeclBlockContract ----------------------------
(***************************************************************************)
(* C10 / C11: a CSS declaration block (cssutils.css.CSSStyleDeclaration)   *)
(* is an ordered list of entries (literal name, value, priority).          *)
(*                                                                         *)
(* Contract layer:  Allowed(list, a, res)  says which results of API call  *)
(* `a` in abstract state `list` the property C10 permits;  Ref(list, a)    *)
(* is the reference semantics used to explore the design with TLC.         *)
(* ViewsAgree(o) says that every read accessor is a function of the list.  *)
(* The same operators judge traces recorded from the real class            *)
(* (DeclBlockTrace.tla).  In every string that crosses the boundary the  *)
(* character ~ stands for the CSS escape character (backslash).           *)
(***************************************************************************)
EXTENDS Naturals, Sequences, FiniteSets, TLC, SequencesExt, FiniteSetsExt, Functions, Json

DOMExc == {"SyntaxErr", "HierarchyRequestErr", "NamespaceErr", "IndexSizeErr",
           "InvalidModificationErr", "NoModificationAllowedErr", "NotFoundErr",
           "InvalidCharacterErr", "InvalidStateErr", "InvalidAccessErr", "DomstringSizeErr",
           "WrongDocumentErr", "NoDataAllowedErr", "NotSupportedErr", "InuseAttributeErr"}

\* ---- name and priority normalisation (table level; characters are Lex/Content's job) ----
Norm(l) == CASE l \in {"color", "COLOR", "c~olor", "Color"}     -> "color"
             [] l \in {"left", "LEFT", "lef~t", "Left"}          -> "left"
             [] l \in {"top", "TOP", "t~op"}                     -> "top"
             [] OTHER -> l
PrioNorm(p) == IF p = "" THEN "" ELSE "important"
BadValue == "#bad"      \* stands for any value text that is not a well-formed value
BadPrio  == "#badprio"  \* any priority text other than '', 'important', '!{w}important'

\* an entry of the abstract list; the literal spelling of the name is not part of the contract
\* (cssutils lower-cases it and the serializer writes the normalised name by default)
Entry(l, v, p) == [name |-> Norm(l), value |-> v, prio |-> PrioNorm(p)]

\* ---- the cascade rule -------------------------------------------------------------------
Idx(b, n) == {i \in 1..Len(b) : b[i].name = n}
Eff(b, n) == IF Idx(b, n) = {} THEN 0
             ELSE LET imp == {i \in Idx(b, n) : b[i].prio # ""}
                  IN  IF imp # {} THEN Max(imp) ELSE Max(Idx(b, n))
NamesOf(b) == {b[i].name : i \in 1..Len(b)}
EffValue(b, n) == IF Eff(b, n) = 0 THEN "" ELSE b[Eff(b, n)].value
EffPrio(b, n)  == IF Eff(b, n) = 0 THEN "" ELSE b[Eff(b, n)].prio

\* ---- reference semantics ------------------------------------------------------------------
Rejected(b) == [list |-> b, out |-> "SyntaxErr", ret |-> ""]
Ok(b)       == [list |-> b, out |-> "ok", ret |-> ""]

RefSet(b, l, v, p) ==
    IF v = BadValue \/ p = BadPrio THEN Rejected(b)
    ELSE IF Eff(b, Norm(l)) = 0 THEN Ok(Append(b, Entry(l, v, p)))
    ELSE Ok([b EXCEPT ![Eff(b, Norm(l))].value = v, ![Eff(b, Norm(l))].prio = PrioNorm(p)])

RefAdd(b, l, v, p) ==
    IF v = BadValue \/ p = BadPrio THEN Rejected(b) ELSE Ok(Append(b, Entry(l, v, p)))

RefRemove(b, l) ==
    [list |-> SelectSeq(b, LAMBDA e : e.name # Norm(l)), out |-> "ok", ret |-> EffValue(b, Norm(l))]

DeclsWellformed(ds) == \A i \in 1..Len(ds) : ds[i].value # BadValue /\ ds[i].prio # BadPrio
DenoteDecls(ds) == [i \in 1..Len(ds) |-> Entry(ds[i].lit, ds[i].value, ds[i].prio)]
RefSetText(b, ds) == IF DeclsWellformed(ds) THEN Ok(DenoteDecls(ds)) ELSE Rejected(b)

Ref(b, a) ==
    CASE a.op \in {"set", "setitem", "attrset"} -> RefSet(b, a.lit, a.value, a.prio)
      [] a.op = "add"                          -> RefAdd(b, a.lit, a.value, a.prio)
      [] a.op \in {"remove", "delitem", "attrdel", "setempty"} -> RefRemove(b, a.lit)
      [] a.op = "settext"                      -> RefSetText(b, a.decls)

IsBad(a) == CASE a.op \in {"set", "setitem", "attrset", "add"} -> a.value = BadValue \/ a.prio = BadPrio
              [] a.op = "settext" -> ~DeclsWellformed(a.decls)
              [] OTHER -> FALSE

\* ---- contract: what C10 (and C11 for the rejected case) allows -----------------------------
\* For malformed arguments C10 is silent: either the call is rejected (then C11: nothing changes)
\* or whatever happens must still leave a block whose views agree (checked separately).
Allowed(b, a, res) ==
    IF res.out \in DOMExc THEN res.list = b                          \* C11
    ELSE IF IsBad(a) THEN TRUE
    ELSE /\ res.out = "ok"
         /\ res.list = Ref(b, a).list
         /\ (a.op = "remove" => res.ret = Ref(b, a).ret)

FirstFailing(b, a, res) ==
    IF res.out \in DOMExc THEN (IF res.list = b THEN "ok" ELSE "RejectedUnchanged")
    ELSE IF IsBad(a) THEN "ok"
    ELSE IF res.out # "ok" THEN "UnexpectedOutcome"
    ELSE IF res.list # Ref(b, a).list THEN "ListAsModel"
    ELSE IF a.op = "remove" /\ res.ret # Ref(b, a).ret THEN "RemoveReturnsEffective"
    ELSE "ok"

\* ---- views: every read accessor is a function of the list ---------------------------------
\* o.keys / o.iter / o.items : sequences of names; o.probes : seq of [q, has, value, prio]
NoDup(s) == \A i, j \in 1..Len(s) : i # j => s[i] # s[j]
ViewClause(o) ==
    IF ~(NoDup(o.keys) /\ Range(o.keys) = NamesOf(o.list)) THEN "KeysAreDistinctNames"
    ELSE IF o.length # Cardinality(NamesOf(o.list)) THEN "LengthCountsNames"
    ELSE IF o.items # o.keys THEN "ItemAgreesWithKeys"
    ELSE IF o.iter # o.keys THEN "IterationAgreesWithKeys"
    ELSE IF o.itemPast # "" \/ o.itemBefore # "" THEN "ItemPastEndEmpty"
    ELSE IF o.itemsNeg # Reverse(o.keys) THEN "NegativeIndexCountsFromTheEnd"
    ELSE IF \E i \in 1..Len(o.probes) : o.probes[i].has # (Eff(o.list, Norm(o.probes[i].q)) # 0) THEN "Membership"
    ELSE IF \E i \in 1..Len(o.probes) : o.probes[i].hasobj # o.probes[i].has \/ ~o.probes[i].hasown THEN "Membership"
    ELSE IF \E i \in 1..Len(o.probes) : o.probes[i].value # EffValue(o.list, Norm(o.probes[i].q)) THEN "EffectiveValue"
    ELSE IF \E i \in 1..Len(o.probes) : o.probes[i].prio # EffPrio(o.list, Norm(o.probes[i].q)) THEN "EffectivePriority"
    ELSE IF \E i \in 1..Len(o.probes) : o.probes[i].attr # EffValue(o.list, Norm(o.probes[i].q)) THEN "AttributeAccess"
    ELSE IF o.effective # [i \in 1..Len(o.keys) |->
                             [name |-> o.keys[i], value |-> EffValue(o.list, o.keys[i]),
                              prio |-> EffPrio(o.list, o.keys[i])]] THEN "EffectiveProperties"
    ELSE IF o.reparsed # o.list THEN "TextReparsesToSameList"
    ELSE "ok"

=============================================================================
