---------------------------- MODULE SheetASTTrace ----------------------------
EXTENDS SheetASTContract, IOUtils
VARIABLES tid, l, bad
Traces == ndJsonDeserialize(IOEnv.TRACE_FILE)
StepClause(pre, ev) == SheetFailing(ev.a, ev.post)
StateClause(o) == "ok"
INSTANCE Monitor
=============================================================================
