SPECIFICATION Spec
INVARIANT RoundTrip
INVARIANT NotVacuous
INVARIANT EmitRow
