SPECIFICATION Spec
CONSTANTS
  Emit = TRUE
  Lits = {"color", "COLOR", "left"}
  Values = {"red", "blue"}
  Prios = {"", "!important"}
  Queries = {"print", "screen", "PRINT"}
  Sels = {"c", "a>b", "a , b"}
  MaxLen = 2
  MaxHist = 4
CONSTRAINT Bounded
VIEW View
INVARIANT EmitAlphabet
