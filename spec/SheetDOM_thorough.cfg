SPECIFICATION Spec
CONSTANTS
  Emit = FALSE
  Deviations = FALSE
  MaxLen = 4
  MaxHist = 6
  Templates <- TemplatesThorough
  KidKinds = {"style", "comment", "import", "margin", "media", "fontface"}
  Texts <- TextsAll
CONSTRAINT Bounded
VIEW View
INVARIANT AlwaysValid
PROPERTY RefAllowed
