SPECIFICATION Spec
CONSTANTS
  Emit = FALSE
  NsPrefixes = {"p", "q", ""}
  Uris = {"u1", "u2"}
  Forms = {"p|e", "q|e", "*|e", "|e", "e", "[p|a]", "z|e", ":not(p|e)", ":not(e)"}
  MaxNs = 3
  MaxSels = 2
  MaxHist = 6
VIEW View
INVARIANT DesignMappingOK
INVARIANT DesignUsedDeclared
INVARIANT DesignDefaultFollowed
