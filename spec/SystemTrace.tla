----------------------------- MODULE SystemTrace -----------------------------
(* Trace monitor for the composition: judges traces recorded from one real cssutils sheet whose *)
(* nested objects are edited through the DOM against SystemContract.                            *)
EXTENDS SystemContract, IOUtils
VARIABLES tid, l, bad
Traces == ndJsonDeserialize(IOEnv.TRACE_FILE)
INSTANCE Monitor
=============================================================================
