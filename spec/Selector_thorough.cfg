SPECIFICATION Spec
CONSTANTS
  MaxParts = 4
  MaxCompounds = 3
  Emit = TRUE
INVARIANT CountAsSpecified
INVARIANT PelOnlyLast
INVARIANT EmitRow
