---------------------------- MODULE ImportsTrace ----------------------------
EXTENDS ImportsContract, IOUtils
VARIABLES tid, l, bad
Traces == ndJsonDeserialize(IOEnv.TRACE_FILE)
StepClause(pre, ev) == ImportsFailing(ev.a, ev.post)
StateClause(o) == "ok"
INSTANCE Monitor
=============================================================================
