------------------------------ MODULE SoupTrace ------------------------------
EXTENDS SoupContract, IOUtils
VARIABLES tid, l, bad
Traces == ndJsonDeserialize(IOEnv.TRACE_FILE)
StepClause(pre, ev) == SoupFailing(ev.a, ev.post)
StateClause(o) == "ok"
INSTANCE Monitor
=============================================================================
