SPECIFICATION Spec
CONSTANTS
  Emit = FALSE
  Deviations = TRUE
  MaxLen = 3
  MaxHist = 5
  Templates <- TemplatesQuick
  KidKinds = {"style", "comment", "import", "margin", "media", "fontface"}
  Texts <- TextsAll
CONSTRAINT Bounded
VIEW View
INVARIANT AlwaysValid
