------------------------------ MODULE SheetAST ------------------------------
(***************************************************************************)
(* Generators of abstract stylesheets for C02, exhaustive per level:       *)
(*   L1 values       all component lists of <= MaxComps components         *)
(*   L2 blocks       all declaration/comment lists of <= MaxDecls items    *)
(*   L3 selectors    selector lists over a vocabulary of selectors         *)
(*   L4 preludes     @import / @media / @page / @namespace / @charset      *)
(*                   over their optional parts                             *)
(*   L5 statements   the machine below: sheets built statement by          *)
(*                   statement, WellOrdered is an invariant                *)
(***************************************************************************)
EXTENDS SheetASTContract
CONSTANTS MaxComps, MaxDecls, MaxStmts, Full3, Emit
VARIABLE sheet

C(t, x) == [t |-> t, x |-> x]
Comps == {C("IDENT", "solid"), C("COLOR_VALUE", "red"), C("NUMBER", "0.5"), C("DIMENSION", "1px"), C("PERCENTAGE", "50%"),
          C("STRING", "\"s\""), C("URI", "url(x)"), C("COLOR_VALUE", "#abc"), C("FUNCTION", "f(1, 2)"), C("CALC", "calc(1px + 2px)"),
          C("UNICODE-RANGE", "u+0-7f"), C("URI", "url(~u/x-1_2.png?a=b&c#f)"),      \* punctuation that is legal in an unquoted URL
          \* function names are case-insensitive also where the value parser special-cases them; calc() as an argument; calc() with
          \* * and / (the renderer writes the white space around them in every way the grammar allows)
          C("DIMENSION", "-1px"), C("DIMENSION", "+2px"), C("NUMBER", "-0.5"), C("IDENT", "inherit"), C("IDENT", "auto"),
          C("COLOR_VALUE", "rgb(1, 2, 3)"), C("COLOR_VALUE", "hsla(1, 2%, 3%, 0.5)"), C("FUNCTION", "f(calc(1px + 2px))"), C("CALC", "calc(2 * 3px / 4)")}
Seps == {"sp", ",", "/"}
Join(a, s, b) == IF s = "sp" THEN a \o b ELSE a \o <<C("op", s)>> \o b
Values1 == {<<c>> : c \in Comps}
Values2 == {Join(<<a>>, s, <<b>>) : a \in Comps, s \in Seps, b \in Comps}
First3 == IF Full3 THEN Comps ELSE {C("IDENT", "solid"), C("DIMENSION", "1px"), C("STRING", "\"s\""), C("FUNCTION", "f(1, 2)")}
Last3  == IF Full3 THEN Comps ELSE {C("COLOR_VALUE", "red"), C("NUMBER", "0.5"), C("URI", "url(x)")}
Values3 == {Join(Join(<<a>>, s, <<b>>), t, <<c>>) : a \in First3, s \in Seps, b \in Comps, t \in Seps, c \in Last3}
Values == Values1 \cup (IF MaxComps >= 2 THEN Values2 ELSE {}) \cup (IF MaxComps >= 3 THEN Values3 ELSE {})

D(n, v, p) == [k |-> "decl", name |-> n, value |-> v, prio |-> p]
Cm(t) == [k |-> "comment", text |-> t]
Style(ss, b) == [k |-> "style", sels |-> ss, body |-> b]
SomeValues == {<<C("COLOR_VALUE", "red")>>, <<C("DIMENSION", "1px"), C("IDENT", "solid")>>, <<C("NUMBER", "0.5"), C("op", "/"), C("NUMBER", "2")>>}
Items == {D(n, v, p) : n \in {"left", "color"}, v \in SomeValues, p \in {"", "important"}} \cup {Cm("/*d*/")}
Bodies == {<<>>} \cup {<<a>> : a \in Items} \cup (IF MaxDecls >= 2 THEN {<<a, b>> : a \in Items, b \in Items} ELSE {})
             \cup (IF MaxDecls >= 3 THEN {<<a, Cm("/*d*/"), b>> : a \in Items, b \in Items} ELSE {})
SelTexts == {"a", "*", "#i", ".c", "a.c", "a b", "a > b", "a + b", "a ~ b", "a[b]", "a[b=v]", "a:hover", "a:not(.c)", "a::before", "a:nth-child(2n+1)",
             \* every attribute operator, compound selectors, further pseudo forms
             "a[b~=v]", "a[b|=v]", "a[b^=v]", "a[b$=v]", "a[b*=v]", "a#i.c", "*.c", "a:first-child", "a::first-line", "a:lang(en)", "a:nth-child(odd)",
             "a:not([b=v])", "a:not(#i)", "a:not(:hover)"}
SelLists == {<<s>> : s \in SelTexts} \cup {<<"a", s>> : s \in SelTexts \ {"a"}} \cup {<<".c", "a b", "#i">>}
NsSelTexts == {"p|a", "*|a", "|a", "p|*", "a:not(p|b)", ":not(*|b)", "a:not(|b)", "[p|b]", "a[p|b=v]", "p|a > .c"}
OneDecl == <<D("left", <<C("DIMENSION", "1px")>>, "")>>
Queries == {<<>>, <<"print">>, <<"print", "tv">>, <<"screen and (min-width: 10em)">>, <<"not print">>, <<"print", "only screen and (color) and (max-width: 20em)">>,
            <<"print", "not print">>, <<"not all", "print">>, <<"only tv", "tv">>,
            \* two queries of the SAME media type that differ in their features are two queries (only bare types are a set)
            <<"screen and (min-width: 10em)", "screen and (max-width: 5em)">>, <<"tv and (color)", "tv">>, <<"all and (color)", "print">>}      \* a bare not/only query is a query of its own, not the simple type
Imports == {[k |-> "import", href |-> "x.css", hreftype |-> h, queries |-> q, name |-> n] : h \in {"string", "uri"}, q \in Queries, n \in {"none", "nm"}}
Namespaces == {[k |-> "namespace", prefix |-> p, uri |-> "u"] : p \in {"", "p"}}
Margins == {<<>>, <<[name |-> "@top-left", body |-> OneDecl]>>, <<[name |-> "@top-left", body |-> OneDecl], [name |-> "@bottom-center", body |-> <<D("color", <<C("COLOR_VALUE", "red")>>, "")>>]>>}
Pages == {[k |-> "page", sel |-> s, body |-> b, margins |-> m] : s \in {"", ":first", ":left", "nm", "nm:right"},
              b \in {OneDecl, <<D("left", <<C("DIMENSION", "1px")>>, ""), Cm("/*d*/"), D("color", <<C("COLOR_VALUE", "red")>>, "important")>>}, m \in Margins}
Inner == {Style(<<"a">>, OneDecl), Cm("/*m*/"), [k |-> "page", sel |-> "", body |-> OneDecl, margins |-> <<>>],
          [k |-> "unknown", text |-> "@x y;"]}
Medias == {[k |-> "media", queries |-> q, rules |-> r] : q \in Queries \ {<<>>}, r \in {<<a>> : a \in Inner} \cup {<<Style(<<"a">>, OneDecl), b>> : b \in Inner}}
          \cup {[k |-> "media", queries |-> <<"print">>, rules |-> <<[k |-> "media", queries |-> <<"tv">>, rules |-> <<Style(<<"a">>, OneDecl)>>], Style(<<".c">>, OneDecl)>>]}
Others == {[k |-> "charset", enc |-> "utf-8"], [k |-> "fontface", body |-> <<D("font-family", <<C("IDENT", "x")>>, ""), D("src", <<C("URI", "url(x)")>>, "")>>],
           [k |-> "unknown", text |-> "@x y;"], [k |-> "unknown", text |-> "@x y { z }"], Cm("/*c*/"),
           \* strings and URLs whose content is a brace or a semicolon do not delimit the unknown rule
           [k |-> "unknown", text |-> "@x { a: \"{\" }"], [k |-> "unknown", text |-> "@x { a: \"}\" }"], [k |-> "unknown", text |-> "@x \";\" y;"]}

NestedNs == <<[k |-> "namespace", prefix |-> "p", uri |-> "u"],
              [k |-> "media", queries |-> <<"print">>, rules |-> <<Style(<<"p|a">>, OneDecl),
                  [k |-> "media", queries |-> <<"tv">>, rules |-> <<Style(<<"p|b", "*|i">>, OneDecl), Style(<<"a[p|b]">>, OneDecl)>>]>>]>>
LevelSheets ==
    {NestedNs} \cup                                                                        \* namespaces reach every nesting level
    {<<Style(<<"a">>, <<D("left", v, "")>>)>> : v \in Values}                              \* L1
    \cup {<<Style(<<"a">>, b)>> : b \in Bodies}                                            \* L2
    \cup {<<Style(ss, OneDecl)>> : ss \in SelLists}                                         \* L3
    \cup {<<[k |-> "namespace", prefix |-> "p", uri |-> "u"], Style(<<s>>, OneDecl)>> : s \in NsSelTexts}   \* L3, namespaced
    \cup {<<r>> : r \in Imports \cup Namespaces \cup Pages \cup Medias \cup Others}         \* L4

\* L5: statement-level machine
Stmts == {[k |-> "charset", enc |-> "utf-8"], [k |-> "import", href |-> "x.css", hreftype |-> "string", queries |-> <<"print">>, name |-> "none"],
          [k |-> "namespace", prefix |-> "p", uri |-> "u"], Style(<<"a">>, OneDecl), Style(<<"a", ".c">>, <<Cm("/*d*/")>> \o OneDecl),
          [k |-> "media", queries |-> <<"print">>, rules |-> <<Style(<<"a">>, OneDecl)>>],
          [k |-> "page", sel |-> ":first", body |-> OneDecl, margins |-> <<>>], [k |-> "fontface", body |-> <<D("font-family", <<C("IDENT", "x")>>, "")>>],
          [k |-> "unknown", text |-> "@x y;"], Cm("/*c*/")}
AddStmt(r) == /\ Len(sheet) < MaxStmts /\ WellOrdered(Append(sheet, r))
              /\ (r.k \in {"namespace", "charset"} => \A i \in 1..Len(sheet) : sheet[i].k # r.k)      \* declared once
              /\ sheet' = Append(sheet, r)
Init == sheet \in LevelSheets \cup {<<>>}
Next == \E r \in Stmts : (\A i \in 1..Len(sheet) : sheet[i] \in Stmts) /\ AddStmt(r)
Spec == Init /\ [][Next]_sheet
AlwaysWellOrdered == WellOrdered(sheet)
StripIdempotent == StripComments(StripComments(sheet)) = StripComments(sheet)
EmitRow == (Emit /\ sheet # <<>>) => PrintT(<<"ROW", ToJson([kind |-> "sheet", ast |-> sheet])>>)
=============================================================================
