------------------------------ MODULE Validate ------------------------------
(* Enumerates (property, value) rows for the CSS 2.1 table oracle; the metamorphic rows over all known property names *)
(* come from the repository's own property tables at run time (read by the check, judged by the same contract).       *)
EXTENDS ValidateContract
VARIABLE row
AllKeywords == UNION {Keywords[p] : p \in DOMAIN Keywords} \cup UNION {SingleType[p].kw : p \in SingleProps}
NearMiss == {"inlin", "blok", "autoo", "non", "centre", "italics", "solid-", "transparant"}
Values == AllKeywords \cup NearMiss \cup Kinds \cup {"inherit"}
Rows == {[kind |-> "table", prop |-> p, value |-> v] : p \in KeywordProps \cup SingleProps, v \in Values}
Init == row \in Rows
Next == UNCHANGED row
Spec == Init /\ [][Next]_row
\* vacuity: every property accepts something besides inherit and rejects something
TableNonTrivial == \A p \in KeywordProps \cup SingleProps : (\E v \in Values \ {"inherit"} : Accepts(p, v)) /\ (\E v \in Values : ~Accepts(p, v))
EmitRow == PrintT(<<"ROW", ToJson(row)>>)
=============================================================================
