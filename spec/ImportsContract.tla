--------------------------- MODULE ImportsContract ---------------------------
(***************************************************************************)
(* C19: URL enumeration / replacement, and flattening of @import trees,    *)
(* over a virtual file system.                                             *)
(*                                                                         *)
(* URL reference   [scheme, host, rooted, segs, query, frag]               *)
(*                 ("" = absent; segs may contain "." and "..")            *)
(* absolute URL    [scheme, host, path, query, frag]   (path normalised)   *)
(* statement       [k |-> "import", ref, media]        media "" = all      *)
(*               | [k |-> "style" | "fontface" | "page" | "namespace",     *)
(*                  sel, urls]                                             *)
(*               | [k |-> "media", media, rules]                           *)
(* world           [root, files: id -> [loc, stmts], avail: ids that can   *)
(*                 be fetched]                                             *)
(*                                                                         *)
(* The MEANING of a sheet is the sequence of its rules in cascade order    *)
(* after virtually expanding every available @import in place, each rule   *)
(* with the stack of media conditions around it and with its URLs resolved *)
(* (RFC 3986) against the sheet it is written in.  Flattening must         *)
(* preserve the meaning when read from the combined sheet's location.      *)
(***************************************************************************)
EXTENDS Naturals, Sequences, FiniteSets, TLC, SequencesExt, FiniteSetsExt, Json

\* ---- RFC 3986 reference resolution (section 5.2, without the corner cases of empty references) ---------------------------
RECURSIVE NormSegs(_, _)
NormSegs(stack, segs) ==
    IF segs = <<>> THEN stack
    ELSE LET s == Head(segs)
         IN  NormSegs(CASE s = ".." -> (IF stack = <<>> THEN <<>> ELSE Front(stack))
                        [] s = "."  -> stack
                        [] OTHER    -> Append(stack, s), Tail(segs))
Abs(scheme, host, path, r) == [scheme |-> scheme, host |-> host, path |-> path, query |-> r.query, frag |-> r.frag]
Resolve(base, r) ==
    IF r.scheme # "" THEN Abs(r.scheme, r.host, NormSegs(<<>>, r.segs), r)
    ELSE IF r.host # "" THEN Abs(base.scheme, r.host, NormSegs(<<>>, r.segs), r)
    ELSE IF r.rooted THEN Abs(base.scheme, base.host, NormSegs(<<>>, r.segs), r)
    ELSE Abs(base.scheme, base.host, NormSegs(Front(base.path), r.segs), r)
SameDoc(a, b) == a.scheme = b.scheme /\ a.host = b.host /\ a.path = b.path

\* ---- worlds ---------------------------------------------------------------------------------------------------------------
Ids(W) == DOMAIN W.files
Lookup(W, t) == LET c == {id \in Ids(W) : id \in ToSet(W.avail) /\ SameDoc(W.files[id].loc, t)}
                IN  IF c = {} THEN "none" ELSE CHOOSE id \in c : TRUE
Push(m, x) == IF x = "" THEN m ELSE Append(m, x)
ResolveAll(base, urls) == [j \in 1..Len(urls) |-> Resolve(base, urls[j])]

RECURSIVE MeaningOf(_, _, _, _, _)
MeaningOf(W, base, stmts, mstack, fuel) ==
    FlattenSeq([i \in 1..Len(stmts) |->
        LET s == stmts[i] IN
        CASE s.k = "import" ->
                LET t  == Resolve(base, s.ref)
                    id == Lookup(W, t)
                IN  IF id = "none" \/ fuel = 0
                    THEN <<[k |-> "import", sel |-> "", media |-> Push(mstack, s.media), urls |-> <<t>>]>>
                    ELSE MeaningOf(W, W.files[id].loc, W.files[id].stmts, Push(mstack, s.media), fuel - 1)
          [] s.k = "media" -> MeaningOf(W, base, s.rules, Push(mstack, s.media), fuel)
          [] s.k \in {"style", "fontface", "page", "namespace"} ->
                <<[k |-> s.k, sel |-> s.sel, media |-> mstack, urls |-> ResolveAll(base, s.urls)]>>
          [] OTHER -> <<>>])
Fuel == 8
Meaning(W, base, stmts) == MeaningOf(W, base, stmts, <<>>, Fuel)
\* what is compared: the rules in cascade order; the unavailable @imports in their order (where they sit among the rules means
\* nothing: @import must come first, and they contribute no rule); the namespace declarations as a set
RulesIn(m) == SelectSeq(m, LAMBDA e : e.k \in {"style", "fontface", "page"})
ImportsIn(m) == SelectSeq(m, LAMBDA e : e.k = "import")
NamespacesIn(m) == ToSet(SelectSeq(m, LAMBDA e : e.k = "namespace"))
NoUrls(m) == [i \in 1..Len(m) |-> [m[i] EXCEPT !.urls = <<>>]]
SameRules(a, b) == NoUrls(RulesIn(a)) = NoUrls(RulesIn(b)) /\ Len(ImportsIn(a)) = Len(ImportsIn(b)) /\ NamespacesIn(a) = NamespacesIn(b)
SameMeaning(a, b) == RulesIn(a) = RulesIn(b) /\ ImportsIn(a) = ImportsIn(b) /\ NamespacesIn(a) = NamespacesIn(b)

\* ---- what may be wrapped in @media: a group of comments and style rules only ---------------------------------------------------
RECURSIVE Wrappable(_, _, _)
Wrappable(W, id, fuel) ==
    \A i \in 1..Len(W.files[id].stmts) :
        LET s == W.files[id].stmts[i] IN
        CASE s.k = "style"  -> TRUE
          [] s.k = "import" -> LET t == Lookup(W, Resolve(W.files[id].loc, s.ref))
                               IN  t # "none" /\ s.media = "" /\ fuel > 0 /\ Wrappable(W, t, fuel - 1)
          [] OTHER -> FALSE
\* an @import that remains in the flat sheet must be one that could not be flattened
MayRemain(W, base, s) == LET id == Lookup(W, Resolve(base, s.ref))
                         IN  id = "none" \/ (s.media # "" /\ ~Wrappable(W, id, Fuel))
RemainingImports(stmts) == SelectSeq(stmts, LAMBDA s : s.k = "import")
RECURSIVE ImportInsideMedia(_)
ImportInsideMedia(stmts) == \E i \in 1..Len(stmts) : stmts[i].k = "media" /\ (RemainingImports(stmts[i].rules) # <<>> \/ ImportInsideMedia(stmts[i].rules))

\* ---- algorithm layer: the reference flattening (and its named deviations) ------------------------------------------------------
Ref(scheme, host, rooted, segs, q, f) == [scheme |-> scheme, host |-> host, rooted |-> rooted, segs |-> segs, query |-> q, frag |-> f]
CommonLen(x, y) == Max({n \in 0..Min({Len(x), Len(y)}) : SubSeq(x, 1, n) = SubSeq(y, 1, n)})
Ups(n) == [i \in 1..n |-> ".."]
RelTo(base, t) ==            \* the canonical relative reference from the sheet at `base` to the absolute URL t (same host), else absolute
    IF base.scheme = t.scheme /\ base.host = t.host
    THEN LET bd == Front(base.path)
             td == Front(t.path)
             n  == CommonLen(bd, td)
         IN  Ref("", "", FALSE, Ups(Len(bd) - n) \o SubSeq(td, n + 1, Len(td)) \o <<Last(t.path)>>, t.query, t.frag)
    ELSE Ref(t.scheme, t.host, TRUE, t.path, t.query, t.frag)
\* Dv: named deviations of the implementation.
\*   "kept-import-not-rebased"   an @import that has to be kept is moved into the importing sheet with its href unchanged
\*   "kept-import-hoisted"       an @import that has to be kept is placed before the groups flattened from EARLIER @imports
\*                               (imports must come first), so the rules it imports now precede them in the cascade
RECURSIVE SpecFlat(_, _, _, _)
SpecFlat(Dv, W, id, fuel) ==
    LET loc == W.files[id].loc
        rootloc == W.files[W.root].loc
        Rebase(r) == RelTo(rootloc, Resolve(loc, r))
        Hoist(res) == IF "kept-import-hoisted" \in Dv
                      THEN SelectSeq(res, LAMBDA x : x.k = "import") \o SelectSeq(res, LAMBDA x : x.k # "import") ELSE res
    IN
    Hoist(FlattenSeq([i \in 1..Len(W.files[id].stmts) |->
        LET s == W.files[id].stmts[i] IN
        CASE s.k = "import" ->
                LET t == Lookup(W, Resolve(loc, s.ref))
                    kept == IF "kept-import-not-rebased" \in Dv THEN <<s>> ELSE <<[s EXCEPT !.ref = Rebase(@)]>>
                IN  IF t = "none" \/ fuel = 0 THEN kept
                    ELSE LET group == SpecFlat(Dv, W, t, fuel - 1)
                         IN  IF s.media = "" THEN group
                             ELSE IF \A j \in 1..Len(group) : group[j].k = "style"
                                  THEN <<[k |-> "media", media |-> s.media, rules |-> group]>>
                                  ELSE kept
          [] s.k = "media" -> <<[s EXCEPT !.rules = [j \in 1..Len(s.rules) |-> [s.rules[j] EXCEPT !.urls = [n \in 1..Len(@) |-> Rebase(@[n])]]]]>>
          [] OTHER -> <<[s EXCEPT !.urls = [n \in 1..Len(@) |-> Rebase(@[n])]]>>]))

\* ---- URL enumeration: imports first, then url() values in document order -----------------------------------------------------------
RECURSIVE BodyUrls(_)
BodyUrls(stmts) == FlattenSeq([i \in 1..Len(stmts) |->
    CASE stmts[i].k = "media" -> BodyUrls(stmts[i].rules)
      [] stmts[i].k \in {"style", "fontface", "page"} -> stmts[i].urls
      [] OTHER -> <<>>])
TopImports(stmts) == [i \in 1..Len(RemainingImports(stmts)) |-> RemainingImports(stmts)[i].ref]
UrlsOf(stmts) == TopImports(stmts) \o BodyUrls(stmts)

\* every fetch of the parse: one per @import statement of every sheet instance reached (a tree, not a DAG)
RECURSIVE Fetches(_, _, _, _)
Fetches(W, base, stmts, fuel) ==
    FlattenSeq([i \in 1..Len(stmts) |->
        IF stmts[i].k # "import" THEN <<>>
        ELSE LET t == Resolve(base, stmts[i].ref)
                 id == Lookup(W, t)
                 here == <<[scheme |-> t.scheme, host |-> t.host, path |-> t.path]>>
             IN  IF id = "none" \/ fuel = 0 THEN here ELSE here \o Fetches(W, W.files[id].loc, W.files[id].stmts, fuel - 1)])
Count(seq, x) == Cardinality({i \in 1..Len(seq) : seq[i] = x})
SameBag(a, b) == Len(a) = Len(b) /\ \A i \in 1..Len(a) : Count(a, a[i]) = Count(b, a[i])

\* an available target is fetched exactly once per @import that reaches it; an unavailable one is tried at least once (the
\* implementation retries when the rule is attached to its sheet) and nothing else is fetched
IsAvail(W, u) == \E id \in Ids(W) : id \in ToSet(W.avail) /\ W.files[id].loc.scheme = u.scheme /\ W.files[id].loc.host = u.host /\ W.files[id].loc.path = u.path
FetchedAsExpected(W, got, want) ==
    /\ \A i \in 1..Len(want) : IF IsAvail(W, want[i]) THEN Count(got, want[i]) = Count(want, want[i]) ELSE Count(got, want[i]) >= Count(want, want[i])
    /\ \A i \in 1..Len(got) : Count(want, got[i]) > 0

\* ---- clauses ----------------------------------------------------------------------------------------------------------------
\* observation of the URL half on one parsed sheet
UrlsFailing(W, o) ==
    LET id == o.file
        expected == UrlsOf(W.files[id].stmts)
    IN
    IF o.out # "ok" THEN "UrlApiCompletes"
    ELSE IF o.urls # expected
         THEN IF SameBag(o.urls, expected) THEN "UrlsAreEnumeratedImportsFirstThenDocumentOrder|deviation:order" ELSE "EveryUrlIsEnumeratedExactlyOnce"
    ELSE IF ~SameBag(o.replaced, expected) THEN "ReplacerIsAppliedOnceToEachUrl"
    \* the replacer returned a fresh token per call; o.after lists the call numbers now found by the enumeration
    ELSE IF \/ Len(o.after) # Len(o.urls)
            \/ \E p \in 1..Len(o.after) : o.after[p] \notin 1..Len(o.replaced) \/ o.replaced[o.after[p]] # o.urls[p]
            \/ \E p, q \in 1..Len(o.after) : p # q /\ o.after[p] = o.after[q]
         THEN "ReplacementLandsWhereTheUrlWas"
    ELSE IF o.rest_before # o.rest_after THEN "ReplacementTouchesNothingElse"
    ELSE IF ~o.identity_noop THEN "IdentityReplacerIsANoOp"
    ELSE "ok"

\* observation of flattening: the flat sheet projected to statements (read from the combined sheet's location = the root's)
FlatFailing(W, o) ==
    LET rootloc == W.files[W.root].loc
        want == Meaning(W, rootloc, W.files[W.root].stmts)
        got  == Meaning(W, rootloc, o.flat)
        Dev(Dv) == SameMeaning(got, Meaning(W, rootloc, SpecFlat(Dv, W, W.root, Fuel)))
        devKept == Dev({"kept-import-not-rebased"})
        devHoist == Dev({"kept-import-hoisted"})
        devBoth == Dev({"kept-import-not-rebased", "kept-import-hoisted"})
    IN
    IF o.out # "ok" THEN "FlatteningCompletes"
    ELSE IF ImportInsideMedia(o.flat) THEN "GroupIsWrappedOnlyWhenValid"
    ELSE IF ~SameMeaning(got, want) /\ ~devKept /\ ~devHoist /\ ~devBoth
         THEN IF ~SameRules(got, want) THEN "RulesOfAllReachableSheetsInCascadeOrderUnderTheirMedia" ELSE "RelativeUrlsResolveAsBefore"
    ELSE IF \E i \in 1..Len(o.flat) : o.flat[i].k = "import" /\ ~MayRemain(W, rootloc, o.flat[i]) THEN "EveryFlattenableImportIsFlattened"
    ELSE IF ~o.skipfetch /\ ~FetchedAsExpected(W, o.fetched, Fetches(W, rootloc, W.files[W.root].stmts, Fuel)) THEN "EachTargetIsFetchedOncePerImport"
    ELSE IF ~o.skipfetch /\ o.refetched # <<>> THEN "FlatteningFetchesNothingAgain"
    ELSE IF ~SameMeaning(got, want) /\ devKept THEN "RelativeUrlsResolveAsBefore|deviation:kept-import-not-rebased"
    ELSE IF ~SameMeaning(got, want) /\ devHoist THEN "RulesOfAllReachableSheetsInCascadeOrderUnderTheirMedia|deviation:kept-import-hoisted"
    ELSE IF ~SameMeaning(got, want) THEN "RulesOfAllReachableSheetsInCascadeOrderUnderTheirMedia|deviation:kept-import-hoisted+not-rebased"
    ELSE "ok"

ImportsFailing(row, o) == IF o.kind = "urls" THEN UrlsFailing(row.world, o) ELSE FlatFailing(row.world, o)
=============================================================================
