------------------------------ MODULE Globals ------------------------------
(***************************************************************************)
(* Machine explored by TLC for C12.  CONTRACT: mode changes only through   *)
(* SetMode.  ALGORITHM LAYER (variable amode): what CSSParser does - the   *)
(* mode is switched to the parser's parse mode for the call and switched   *)
(* back afterwards; with Deviations = TRUE as the historical code did it:  *)
(* back to the mode captured when the PARSER WAS CONSTRUCTED, and not at   *)
(* all when the call raises.  TLC then exhibits both counterexamples; with *)
(* FALSE (restore in a finally-block to the mode at call start)            *)
(* ModeIsContractMode is an invariant.                                     *)
(***************************************************************************)
EXTENDS GlobalsContract
CONSTANTS Parsers, MaxHist, Deviations, Emit
VARIABLES mode,      \* contract: the error mode the user has set
          amode,     \* algorithm layer: what the implementation's flag holds
          parser,    \* parser id -> [made, atInit (mode when constructed), raising (parse mode)]
          pref,      \* which preference assignment is active ("default", "minified", "nocomments")
          hist
vars == <<mode, amode, parser, pref, hist>>

Entries == {"string", "bytes", "style", "file", "url", "module"}
\* "pushback": well-formed input whose LAST construct makes the production parser push a token back that nobody consumes
\* (an empty margin box) - scratch state that the next use of the library must not see
Faults  == {"none", "empty", "malformed", "undecodable", "fetcherthrows", "missingfile", "pushback"}
\* does the call raise out of the parse method?  (malformed input raises only from a raising parser)
Raises(p, f) == f \in {"undecodable", "fetcherthrows", "missingfile"} \/ (f = "malformed" /\ parser[p].raising)
\* is the mode already switched when the fault happens?  (a missing file / failing URL fetch is noticed before)
Switched(e, f) == ~(f = "missingfile") /\ ~(e = "url" /\ f = "fetcherthrows")
Sensible(e, f) == /\ (f = "missingfile" => e = "file")
                  /\ (f = "undecodable" => e \in {"bytes", "style", "file", "module"})
                  /\ (f = "fetcherthrows" => e \in {"string", "url"})
                  /\ (f = "pushback" => e \in {"string", "bytes", "file", "module"})

Rec(a) == /\ Len(hist) < MaxHist
          /\ hist' = Append(hist, a)
          /\ (Emit => PrintT(<<"HIST", ToJson([h |-> Append(hist, a), s |-> <<mode, amode, parser, pref>>])>>))

NewParser(p, r) == /\ Rec([op |-> "newparser", p |-> p, raising |-> r])
                   /\ parser' = [parser EXCEPT ![p] = [made |-> TRUE, atInit |-> amode, raising |-> r]]
                   /\ UNCHANGED <<mode, amode, pref>>
SetMode(b) == /\ Rec([op |-> "setmode", b |-> b]) /\ mode' = b /\ amode' = b /\ UNCHANGED <<parser, pref>>
Parse(p, e, f) ==
    /\ parser[p].made /\ Sensible(e, f)
    /\ Rec([op |-> "parse", p |-> p, entry |-> e, fault |-> f])
    /\ amode' = IF ~Switched(e, f) THEN amode
                ELSE IF Raises(p, f) THEN (IF Deviations THEN parser[p].raising ELSE amode)
                ELSE (IF Deviations THEN parser[p].atInit ELSE amode)
    /\ UNCHANGED <<mode, parser, pref>>
\* the module-level functions (cssutils.parseString ...) build a parser for the call
ParseModule(f) ==
    /\ f \in {"none", "empty", "malformed", "undecodable"}
    /\ Rec([op |-> "parse", p |-> "module", entry |-> "module", fault |-> f])
    /\ amode' = IF f = "undecodable" /\ Deviations THEN FALSE ELSE amode
    /\ UNCHANGED <<mode, parser, pref>>
DomEdit   == Rec([op |-> "domedit"]) /\ UNCHANGED <<mode, amode, parser, pref>>
MQEdit    == Rec([op |-> "mqedit"]) /\ UNCHANGED <<mode, amode, parser, pref>>
Serialize == Rec([op |-> "serialize"]) /\ UNCHANGED <<mode, amode, parser, pref>>
\* a rejected edit of a value object; a profile with its own token macros registered and removed again: both leave nothing behind
ValueEdit == Rec([op |-> "valueedit"]) /\ UNCHANGED <<mode, amode, parser, pref>>
ProfileRoundTrip == Rec([op |-> "profileaddremove"]) /\ UNCHANGED <<mode, amode, parser, pref>>
\* the default profiles are switched to CSS 2.1, the battery's declarations are validated, the default is switched back
ProfileSwitch == Rec([op |-> "profileswitch"]) /\ UNCHANGED <<mode, amode, parser, pref>>
\* a serialisation that ends in an exception (validOnly + a profile whose validator function raises); profile and preference are put back
SerializeRaises == Rec([op |-> "serializeraises"]) /\ UNCHANGED <<mode, amode, parser, pref>>
\* csscombine works with a private serializer: whatever its arguments, the user's serializer and preferences stay as they are
Combine(f, m, rv) == Rec([op |-> "combine", fault |-> f, minify |-> m, resolve |-> rv]) /\ UNCHANGED <<mode, amode, parser, pref>>
\* a tokenizer built with its own macros (a compiled-production cache sits behind it): later tokenizers must not see it
CustomTokenizer(v) == Rec([op |-> "tokenizer", macros |-> v]) /\ UNCHANGED <<mode, amode, parser, pref>>
SetPref(v) == Rec([op |-> "setpref", v |-> v]) /\ pref' = v /\ UNCHANGED <<mode, amode, parser>>
Probe     == Rec([op |-> "probe"]) /\ UNCHANGED <<mode, amode, parser, pref>>

Init == /\ mode = TRUE /\ amode = TRUE /\ pref = "default" /\ hist = <<>>
        /\ parser = [p \in Parsers |-> [made |-> FALSE, atInit |-> FALSE, raising |-> FALSE]]
Next == \/ \E p \in Parsers, r \in BOOLEAN : NewParser(p, r)
        \/ \E b \in BOOLEAN : SetMode(b)
        \/ \E p \in Parsers, e \in Entries \ {"module"}, f \in Faults : Parse(p, e, f)
        \/ \E f \in Faults : ParseModule(f)
        \/ DomEdit \/ MQEdit \/ Serialize \/ Probe \/ ValueEdit \/ ProfileRoundTrip \/ ProfileSwitch \/ SerializeRaises
        \/ \E f \in {"none", "missingfile"}, m \in BOOLEAN, rv \in BOOLEAN : Combine(f, m, rv)
        \/ \E v \in {"A", "B"} : CustomTokenizer(v)
        \/ \E v \in {"default", "minified", "nocomments"} : SetPref(v)
Spec == Init /\ [][Next]_vars
View == <<mode, amode, parser, pref>>

\* C12 on the design: the implementation's flag always equals what the user set
ModeIsContractMode == amode = mode
EmitWalk == Len(hist) = MaxHist => PrintT(<<"WALK", ToJson(hist)>>)
EmitAlphabet == hist = <<>> => PrintT(<<"ALPHABET", ToJson({[op |-> "n/a"]})>>)
=============================================================================
