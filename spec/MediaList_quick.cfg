SPECIFICATION Spec
CONSTANTS
  Emit = FALSE
  Queries = {"print", "screen", "all", "PRINT", "not print", "screen and (min-width: 400px) and (color)", "(max-width: 20em) and (min-width: 10px) and (color)"}
  TextTypes = {"print", "screen", "PRINT"}
  MaxLen = 3
  MaxHist = 4
CONSTRAINT Bounded
VIEW View
INVARIANT AlwaysCanonical
INVARIANT MeaningIdempotent
PROPERTY RefAccepted
PROPERTY AppendIsLast
PROPERTY DeleteExact
PROPERTY RejectedUnchanged
