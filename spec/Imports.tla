------------------------------ MODULE Imports ------------------------------
(***************************************************************************)
(* C19 generator and algorithm layer.                                      *)
(* A fixed set of files in parent / sibling / child directories, on a      *)
(* second host, reachable through relative, dotted, root-relative,         *)
(* absolute and scheme-relative references; the machine adds @import edges *)
(* (target, reference form, media) one at a time, every reachable state is *)
(* a world (virtual file system).  Bodies are fixed per file and contain   *)
(* url() values of every form at every nesting level, and the rule kinds   *)
(* that cannot be wrapped in @media.                                       *)
(* SpecFlatten is the reference flattening; TLC checks on every world that *)
(* it satisfies the contract (so the contract is satisfiable) and the path *)
(* algebra lemma  Resolve(base, RelTo(base, t)) = t.                       *)
(***************************************************************************)
EXTENDS ImportsContract
CONSTANTS MaxEdges, MaxPerFile, Emit, Forms, Medias
VARIABLES edges, gap      \* gap: an unknown at-rule sits between the first and the second @import of every file (the parser accepts it)

Url(host, path) == [scheme |-> "http", host |-> host, path |-> path, query |-> "", frag |-> ""]
Rel(segs) == Ref("", "", FALSE, segs, "", "")
Root(segs) == Ref("", "", TRUE, segs, "", "")
Full(host, segs) == Ref("http", host, TRUE, segs, "", "")
SchemeRel(host, segs) == Ref("", host, TRUE, segs, "", "")
Style(sel, urls) == [k |-> "style", sel |-> sel, urls |-> urls]

Order == <<"main", "a", "b", "p", "c", "d", "e", "z", "f", "g", "hh", "t">>
Pos(id) == CHOOSE i \in 1..Len(Order) : Order[i] = id
Loc == [main |-> Url("h", <<"css", "main.css">>), a |-> Url("h", <<"css", "a.css">>), b |-> Url("h", <<"css", "sub", "b.css">>),
        p |-> Url("h", <<"css", "deep", "er", "p.css">>), c |-> Url("h", <<"c.css">>), d |-> Url("h", <<"si*", "d.css">>),
        e |-> Url("h", <<"abs", "e.css">>), f |-> Url("h2:8080", <<"x", "f.css">>), g |-> Url("h2:8080", <<"x", "g.css">>),
        hh |-> Url("h2:8080", <<"x", "y", "h.css">>), z |-> Url("h", <<"css", "z.css">>),
        t |-> Url("h", <<"css", "theme", "">>)]          \* a directory URL ("css/theme/"): its last segment is empty, its base is itself
Body == [main |-> <<Style(".m", <<Rel(<<"m.png">>), Rel(<<"img", "m.png">>), Rel(<<"..", "m.png">>)>>)>>,
         a |-> <<Style(".a", <<Rel(<<"a.png">>), Ref("", "", FALSE, <<"img", "a.png">>, "v=1", ""), Ref("", "", FALSE, <<"..", "up", "a.svg">>, "", "f")>>)>>,
         b |-> <<Style(".b", <<Rel(<<"b.png">>), Rel(<<"..", "b2.png">>), Rel(<<"..", "..", "b3.png">>), Root(<<"root", "b.png">>)>>),
                 [k |-> "media", media |-> "print", rules |-> <<Style(".bm", <<Rel(<<"deep", "b.png">>)>>)>>]>>,
         p |-> <<Style(".p", <<Rel(<<"..", "..", "p.png">>), Rel(<<"p2.png">>), Rel(<<"sp%20ace.png">>)>>)>>,
         c |-> <<[k |-> "fontface", sel |-> "@font-face", urls |-> <<Rel(<<"fonts", "c.woff">>)>>], Style(".c", <<Rel(<<"c.png">>)>>)>>,
         d |-> <<Style(".d", <<Rel(<<"d.png">>), Full("h2", <<"abs", "d.png">>), SchemeRel("h2", <<"sr", "d.png">>), Rel(<<".", "d2.png">>), Rel(<<"x", "..", "d3.png">>)>>),
                 Style(".d2", <<>>)>>,
         e |-> <<[k |-> "namespace", sel |-> "@namespace", urls |-> <<>>], Style("nsp|e", <<Rel(<<"e.png">>)>>)>>,
         f |-> <<Style(".f", <<Rel(<<"f.png">>), Root(<<"r", "f.png">>)>>)>>,
         g |-> <<[k |-> "page", sel |-> "@page", urls |-> <<Rel(<<"g.png">>), Rel(<<"m", "g.png">>)>>]>>,
         hh |-> <<Style(".h", <<Rel(<<"..", "h.png">>)>>)>>,
         t |-> <<Style(".t", <<Rel(<<"img", "t.png">>), Rel(<<"..", "t2.png">>)>>)>>,
         z |-> <<>>]            \* an empty sheet is available, not missing: importing it contributes nothing

\* ---- references from one file to another ---------------------------------------------------------------------------------
FormsFor(src, dst) == IF dst = "missing" THEN {"rel", "up"} \cap Forms
                      ELSE (IF Loc[src].host = Loc[dst].host THEN {"rel", "dot", "root"} ELSE {}) \cup {"abs", "schemerel"}
RefOf(src, e) ==
    IF e.to = "missing" THEN (IF e.form = "rel" THEN Rel(<<"missing.css">>) ELSE Rel(<<"..", "nope", "missing.css">>))
    ELSE LET t == Loc[e.to]
             r == RelTo(Loc[src], t)
         IN  CASE e.form = "rel"  -> r
               [] e.form = "dot"  -> [r EXCEPT !.segs = <<".">> \o @]
               [] e.form = "root" -> Root(t.path)
               [] e.form = "abs"  -> Full(t.host, t.path)
               [] OTHER           -> SchemeRel(t.host, t.path)

ImportStmts(id) == [i \in 1..Len(edges[id]) |-> [k |-> "import", ref |-> RefOf(id, edges[id][i]), media |-> edges[id][i].media]]
Unknown == [k |-> "unknown", sel |-> "@layer", urls |-> <<>>]
Stmts(id) == (IF gap /\ Len(edges[id]) >= 2 THEN <<ImportStmts(id)[1], Unknown>> \o Tail(ImportStmts(id)) ELSE ImportStmts(id)) \o Body[id]
Targets(s) == {edges[s][i].to : i \in 1..Len(edges[s])} \ {"missing"}
RECURSIVE Reach(_, _)
Reach(S, n) == IF n = 0 THEN S ELSE Reach(S \cup UNION {Targets(s) : s \in S}, n - 1)
Reachable == Reach({"main"}, Len(Order))
World == [root |-> "main", files |-> [id \in Reachable |-> [loc |-> Loc[id], stmts |-> Stmts(id)]], avail |-> SetToSeq(Reachable)]
NEdges == LET RECURSIVE Sum(_)
              Sum(S) == IF S = {} THEN 0 ELSE LET x == CHOOSE y \in S : TRUE IN Len(edges[x]) + Sum(S \ {x})
          IN  Sum(DOMAIN edges)

Init == edges = [id \in ToSet(Order) |-> <<>>] /\ gap \in BOOLEAN
AddEdge(src, e) == /\ src \in Reachable
                   /\ NEdges < MaxEdges
                   /\ Len(edges[src]) < MaxPerFile
                   /\ edges' = [edges EXCEPT ![src] = Append(@, e)]
                   /\ UNCHANGED gap
Next == \E src \in ToSet(Order), to \in ToSet(Order) \cup {"missing"}, m \in Medias :
            /\ (IF to = "missing" THEN TRUE ELSE Pos(src) < Pos(to))      \* acyclic (cycles are C01's subject)
            /\ \E fm \in FormsFor(src, to) \cap Forms : AddEdge(src, [to |-> to, form |-> fm, media |-> m])
Spec == Init /\ [][Next]_<<edges, gap>>

RootLoc == Loc["main"]

\* ---- design checks -------------------------------------------------------------------------------------------------------------
AllRefs == UNION {{Stmts(id)[i].ref : i \in {j \in 1..Len(Stmts(id)) : Stmts(id)[j].k = "import"}} \cup ToSet(BodyUrls(Body[id])) : id \in Reachable}
\* path algebra: the relative reference computed from a base to an absolute URL resolves back to it, from every file's location
RelToInvertsResolve == \A id \in Reachable, id2 \in Reachable : \A r \in ToSet(BodyUrls(Body[id])) :
                          LET t == Resolve(Loc[id], r) IN Resolve(Loc[id2], RelTo(Loc[id2], t)) = t
SpecFlattenMeetsContract ==
    FlatFailing(World, [kind |-> "flat", out |-> "ok", flat |-> SpecFlat({}, World, "main", Fuel),
                        fetched |-> Fetches(World, RootLoc, Stmts("main"), Fuel), refetched |-> <<>>, skipfetch |-> FALSE]) = "ok"
EmitWorld == Emit => PrintT(<<"ROW", ToJson([kind |-> "world", world |-> World, nedges |-> NEdges])>>)
=============================================================================
