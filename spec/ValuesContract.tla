--------------------------- MODULE ValuesContract ---------------------------
(***************************************************************************)
(* C18: value normalisation never changes what a value denotes.            *)
(* A decimal literal is [sign, int (digit sequence), frac (digit           *)
(* sequence), unit].  Its denotation Den is the canonical digit form of    *)
(* the rational number it names (exact, no floating point): leading zeros  *)
(* of the integer part and trailing zeros of the fraction are dropped and  *)
(* zero has no sign.  Colours denote channel tuples; hash colours are      *)
(* sequences of hex digit values.                                          *)
(***************************************************************************)
EXTENDS Naturals, Sequences, FiniteSets, TLC, SequencesExt, Json

RECURSIVE StripLead(_)
StripLead(d) == IF d # <<>> /\ d[1] = 0 THEN StripLead(Tail(d)) ELSE d
RECURSIVE StripTrail(_)
StripTrail(d) == IF d # <<>> /\ d[Len(d)] = 0 THEN StripTrail(SubSeq(d, 1, Len(d) - 1)) ELSE d
IsZero(n) == StripLead(n.int) = <<>> /\ StripTrail(n.frac) = <<>>
Den(n) == [neg |-> (n.sign = "-" /\ ~IsZero(n)), int |-> StripLead(n.int), frac |-> StripTrail(n.frac)]
LengthUnits == {"px", "em", "ex", "cm", "mm", "in", "pt", "pc"}
\* the documented output form: redundant zeros dropped, zero lengths unit-less, '+' kept on non-zero,
\* leading zero omitted under omitLeadingZero for |x| < 1
Canon(n, omitLeadingZero) ==
    [sign |-> IF IsZero(n) /\ n.sign = "-" THEN "" ELSE n.sign,
     int  |-> IF StripLead(n.int) = <<>> THEN (IF omitLeadingZero /\ StripTrail(n.frac) # <<>> THEN <<>> ELSE <<0>>) ELSE StripLead(n.int),
     frac |-> StripTrail(n.frac),
     unit |-> IF IsZero(n) /\ n.unit \in LengthUnits THEN "" ELSE n.unit]
UnitOk(src, obs) == obs.unit = src.unit \/ (IsZero(src) /\ src.unit \in LengthUnits /\ obs.unit = "")

NumberFailing(r, o) ==
    IF o.out # "ok" THEN "NumberLiteralAccepted"
    ELSE IF Den(o.ser) # Den(r.n) THEN "SerialisedNumberDenotesSameReal"
    ELSE IF ~UnitOk(r.n, o.ser) THEN "UnitPreserved"
    ELSE IF Den(o.reser) # Den(r.n) \/ ~UnitOk(r.n, o.reser) THEN "SecondSerialisationDenotesSameReal"
    ELSE IF Den(o.typed) # Den(r.n) THEN "TypedValueAgreesWithSource"
    ELSE IF o.dimension # r.n.unit THEN "TypedUnitAgreesWithSource"
    ELSE "ok"

\* ---- colours ---------------------------------------------------------------------------------------------------
\* a hash colour as hex digit values: 3 digits (each doubled) or 6 digits
HashChannels(h) == IF Len(h) = 3 THEN <<17 * h[1], 17 * h[2], 17 * h[3]>>
                   ELSE <<16 * h[1] + h[2], 16 * h[3] + h[4], 16 * h[5] + h[6]>>
Shortenable(h) == Len(h) = 6 /\ h[1] = h[2] /\ h[3] = h[4] /\ h[5] = h[6]
Named == [red |-> <<255, 0, 0>>, green |-> <<0, 128, 0>>, blue |-> <<0, 0, 255>>, white |-> <<255, 255, 255>>, black |-> <<0, 0, 0>>,
          yellow |-> <<255, 255, 0>>, maroon |-> <<128, 0, 0>>, olive |-> <<128, 128, 0>>, lime |-> <<0, 255, 0>>, aqua |-> <<0, 255, 255>>,
          teal |-> <<0, 128, 128>>, navy |-> <<0, 0, 128>>, fuchsia |-> <<255, 0, 255>>, purple |-> <<128, 0, 128>>, silver |-> <<192, 192, 192>>,
          gray |-> <<128, 128, 128>>, orange |-> <<255, 165, 0>>]
HashFailing(r, o) ==
    IF o.out # "ok" THEN "HashColourAccepted"
    ELSE IF o.channels # HashChannels(r.h) THEN "ChannelsOfHashColour"
    ELSE IF HashChannels(o.ser) # HashChannels(r.h) THEN "SerialisedHashDenotesSameColour"
    ELSE IF Len(o.ser) < Len(r.h) /\ ~Shortenable(r.h) THEN "HashShortenedOnlyWhenLossless"
    ELSE IF ~r.minimize /\ Len(o.ser) # Len(r.h) THEN "HashKeptWhenMinimizeOff"
    ELSE IF HashChannels(o.reser) # HashChannels(r.h) THEN "SecondSerialisationDenotesSameColour"
    ELSE "ok"
\* every written form of the same colour gives the same channels (r.forms: sequence of observations for one colour)
ColourFailing(r, o) ==
    IF \E i \in 1..Len(o.forms) : o.forms[i].out # "ok" THEN "ColourFormAccepted"
    ELSE IF \E i \in 1..Len(o.forms) : o.forms[i].channels # r.rgb THEN "ChannelsEqualAcrossWrittenForms"
    ELSE IF \E i \in 1..Len(o.forms) : o.forms[i].alpha # r.alpha THEN "AlphaEqualAcrossWrittenForms"
    ELSE IF \E i \in 1..Len(o.forms) : o.forms[i].rechannels # r.rgb THEN "ChannelsSurviveSerialisation"
    ELSE "ok"
\* component lists: order and separators preserved
ListFailing(r, o) == IF o.out # "ok" THEN "ComponentListAccepted"
                     ELSE IF o.comps # r.comps THEN "OrderAndSeparatorsPreserved" ELSE "ok"
=============================================================================
