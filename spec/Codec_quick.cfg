SPECIFICATION Spec
CONSTANTS
  MaxCut = 30
  MaxCuts = 1
  ChunkLen = 26
INVARIANT TableTotal
INVARIANT EmitRow
