------------------------------ MODULE Encutils ------------------------------
(* Enumerates the complete decision table of C20 (one initial state per row) and checks on the table itself that *)
(* the expectation is total and lower-case.                                                                      *)
EXTENDS EncutilsContract
VARIABLE row
MTs   == {"appxml", "appxmlplus", "textxml", "textxmlplus", "html", "css", "text", "other"}
Encs  == {"ISO-8859-5", "KOI8-R", "UTF-8"}
Xmls  == {"none", "decl:ISO-8859-5", "decl:KOI8-R", "decl:UTF-8", "bom:utf-8", "bom:utf_16_le", "bom:utf_16_be", "bomdecl:utf-8:ISO-8859-5"}
Rows  == {[kind |-> "info", mt |-> m, http |-> h, xml |-> x, meta |-> me, doc |-> d] :
              m \in MTs, h \in Encs \cup {"none"}, x \in Xmls, me \in Encs \cup {"none"}, d \in {"text", "bytes"}}
         \cup {[kind |-> "sniff", xml |-> x, pos |-> p, doc |-> d, short |-> FALSE, incdef |-> i] :
                  x \in Xmls, p \in {0, 3}, d \in {"text", "stream", "bytes"}, i \in BOOLEAN}
         \cup {[kind |-> "mediatype", mt |-> m] : m \in MTs}
Init == row \in Rows
Next == UNCHANGED row
Spec == Init /\ [][Next]_row
LowerNames == {"iso-8859-5", "koi8-r", "utf-8", "iso-8859-1", "ascii", "utf_16_le", "utf_16_be", "none"}
TableTotal == row.kind = "info" => /\ ExpectedEncoding(row) \in LowerNames
                                   /\ ExpectedMismatch(row) \in {"true", "false", "any"}
                                   /\ (row.http # "none" => ExpectedEncoding(row) = Lower(row.http))
EmitRow == PrintT(<<"ROW", ToJson(row)>>)
=============================================================================
