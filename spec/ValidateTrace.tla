---------------------------- MODULE ValidateTrace ----------------------------
EXTENDS ValidateContract, IOUtils
VARIABLES tid, l, bad
Traces == ndJsonDeserialize(IOEnv.TRACE_FILE)
StepClause(pre, ev) == CASE ev.a.kind = "table" -> TableFailing(ev.a, ev.post) [] ev.a.kind = "meta" -> MetaFailing(ev.a, ev.post)
                         [] ev.a.kind = "unknown" -> UnknownFailing(ev.a, ev.post)
StateClause(o) == "ok"
INSTANCE Monitor
=============================================================================
