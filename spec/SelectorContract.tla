-------------------------- MODULE SelectorContract --------------------------
(***************************************************************************)
(* C16: selector specificity, structure and list semantics.                *)
(* An abstract selector is a sequence of parts                             *)
(*   [k |-> "type"|"universal"|"id"|"class"|"attr"|"pclass"|"fpclass"|     *)
(*          "pel"|"not"|"comb", n |-> name / operator / combinator,        *)
(*    arg |-> for "not": the negated part; "" otherwise]                   *)
(* Specificity = (0, #id, #class + #attribute, #type + #pseudo-element)    *)
(* counted over all compound parts including the argument of :not();       *)
(* pseudo-classes and the universal selector add nothing.                  *)
(***************************************************************************)
EXTENDS Naturals, Sequences, FiniteSets, TLC, SequencesExt, Json

Kind(p) == p.k
Weight(k) == CASE k = "id" -> <<1, 0, 0>> [] k \in {"class", "attr"} -> <<0, 1, 0>> [] k \in {"type", "pel"} -> <<0, 0, 1>> [] OTHER -> <<0, 0, 0>>
Add3(a, b) == <<a[1] + b[1], a[2] + b[2], a[3] + b[3]>>
PartWeight(p) == IF p.k = "not" THEN Weight(p.arg.k) ELSE Weight(p.k)
RECURSIVE SpecOf(_)
SpecOf(parts) == IF parts = <<>> THEN <<0, 0, 0>> ELSE Add3(PartWeight(parts[1]), SpecOf(Tail(parts)))
Spec4(parts) == <<0>> \o SpecOf(parts)

\* whitespace on both sides of a comment is one descendant combinator, and whitespace next to an explicit combinator is none:
\* a descendant combinator adjacent to another combinator is dropped before the structure is compared with the source
IsComb(p) == p.k = "comb"
RECURSIVE Collapse(_)
Collapse(ps) == IF Len(ps) < 2 THEN ps
                ELSE IF IsComb(ps[1]) /\ IsComb(ps[2]) THEN (IF ps[1].n = " " THEN Collapse(Tail(ps)) ELSE Collapse(<<ps[1]>> \o Tail(Tail(ps))))
                ELSE <<ps[1]>> \o Collapse(Tail(ps))

\* an observation: for each spelling the specificity, the specificity after a selectorText round trip, after attaching
\* the selector to a sheet, and the part sequence recovered from the reparsed serialisation
SpellingFailing(row, s) ==
    IF s.out # "ok" THEN "WellFormedSelectorAccepted"
    ELSE IF s.spec # Spec4(row.parts) THEN "SpecificityCountsIdClassAttrTypePseudoElement"
    ELSE IF s.respec # Spec4(row.parts) THEN "SpecificityStableUnderRoundTrip"
    ELSE IF s.sheetspec # Spec4(row.parts) THEN "SpecificityStableWhenAttached"
    ELSE IF s.parts # s.parts0 THEN "SerialisationReparsesToSameSimpleSelectors"
    ELSE IF Collapse(s.parts0) # row.parts THEN "ParsedStructureAsWritten"
    \* after an assignment that was rejected (the selector still reports the text it had) the specificity is still that text's
    ELSE IF s.rejtext = s.ser /\ s.rejspec # Spec4(row.parts) THEN "SpecificityIsThatOfTheTextHeld"
    ELSE "ok"
RECURSIVE FirstBad(_, _, _)
FirstBad(row, ss, i) == IF i > Len(ss) THEN "ok"
                        ELSE IF SpellingFailing(row, ss[i]) # "ok" THEN SpellingFailing(row, ss[i]) ELSE FirstBad(row, ss, i + 1)
SelectorFailing(row, o) == FirstBad(row, o.spellings, 1)

\* ---- selector lists ------------------------------------------------------------------------------------------
DOMExc == {"SyntaxErr", "HierarchyRequestErr", "NamespaceErr", "IndexSizeErr", "InvalidModificationErr",
           "NoModificationAllowedErr", "NotFoundErr", "InvalidCharacterErr"}
BadSel == "#bad"
Without(l, x) == SelectSeq(l, LAMBDA y : y # x)
ListRef(l, a) ==
    CASE a.op = "append"  -> IF a.s = BadSel THEN [list |-> l, ok |-> FALSE] ELSE [list |-> Append(Without(l, a.s), a.s), ok |-> TRUE]
      [] a.op = "settext" -> IF BadSel \in Range(a.ss) \/ a.ss = <<>> THEN [list |-> l, ok |-> FALSE] ELSE [list |-> a.ss, ok |-> TRUE]
      \* item assignment (index counted from the front or from the end): the member at that place is replaced, the order stays
      [] a.op = "setitem" -> IF a.s = BadSel THEN [list |-> l, ok |-> FALSE] ELSE [list |-> [l EXCEPT ![a.i] = a.s], ok |-> TRUE]
ListFailing(l, a, out, post) ==
    IF out \in DOMExc THEN (IF post = l THEN "ok" ELSE "RejectedUnchanged")
    ELSE IF ~ListRef(l, a).ok THEN (IF a.mode = "log" /\ post = l THEN "ok" ELSE "InvalidMemberRejectsWholeList")
    ELSE IF a.op \in {"settext", "setitem"} THEN (IF post = ListRef(l, a).list THEN "ok" ELSE "OrderPreserved")
    ELSE IF post = ListRef(l, a).list THEN "ok" ELSE "AppendOfPresentSelectorMovesItToEnd"
ListViewFailing(o) == IF o.length # Len(o.list) THEN "LengthCountsSelectors"
                      ELSE IF o.reparsed # o.list THEN "SelectorTextReparsesToSameList" ELSE "ok"
=============================================================================
