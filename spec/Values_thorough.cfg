SPECIFICATION Spec
CONSTANTS
  Ints <- IntsThorough
  Fracs <- FracsThorough
  Units = {"", "%", "px", "em", "ex", "cm", "mm", "in", "pt", "pc", "deg", "rad", "s", "ms", "hz"}
  BoundaryHex = {0, 1, 9, 10, 15}
INVARIANT CanonKeepsDenotation
INVARIANT ShorteningLossless
INVARIANT EmitRow
