------------------------------- MODULE Codec -------------------------------
(* Enumerates the input spaces of C07 (one initial state per row) and checks prefix stability of the table itself. *)
EXTENDS CodecContract
CONSTANTS MaxCut, MaxCuts, ChunkLen
VARIABLE row

DetectRows  == {[kind |-> "detect", bs |-> b, final |-> f] : b \in Seqs(4), f \in BOOLEAN}
CharsetRows == {[kind |-> "charset", name |-> n, cut |-> c, full |-> 11 + (IF n = "utf-8" THEN 5 ELSE 10), final |-> f, unicode |-> u] :
                    n \in {"utf-8", "iso-8859-1"}, c \in 0..MaxCut, f \in BOOLEAN, u \in BOOLEAN}
Encodings == {"utf-8", "utf-8-sig", "utf-16", "utf-16-le", "utf-16-be", "utf-32", "utf-32-le", "utf-32-be",
              "iso-8859-1", "koi8-r", "cp1252", "ascii", "iso-2022-jp"}       \* the last one is stateful: its encoder must be flushed
BomFamily == {"utf-8-sig", "utf-16", "utf-32"}
Bodies == {"empty", "ascii", "latin1", "cyrillic", "bmp", "astral"}
RoundRows == {[kind |-> "roundtrip", body |-> b, enc |-> e, cs |-> c, mode |-> m,
               used |-> IF e = "utf-8-sig" THEN "utf-8" ELSE e] :
                  b \in Bodies, e \in Encodings, c \in {"none", "same", "other"}, m \in {"given", "auto"}}
             \* a rule with an EMPTY name is a rule all the same: its name is rewritten to the encoding used
             \cup {[kind |-> "roundtrip", body |-> b, enc |-> e, cs |-> "empty", mode |-> "given",
                    used |-> IF e = "utf-8-sig" THEN "utf-8" ELSE e] : b \in Bodies, e \in Encodings}
             \* force=False: the given encoding yields only to an EXPLICIT statement in the bytes (BOM or @charset rule); here
             \* there is none or one that agrees, so the given encoding decides
             \cup {[kind |-> "roundtrip", body |-> b, enc |-> e, cs |-> c, mode |-> "given-noforce",
                    used |-> IF e = "utf-8-sig" THEN "utf-8" ELSE e] : b \in Bodies, e \in Encodings, c \in {"none", "same"}}
\* cut sets: at most MaxCuts cuts within the first ChunkLen units, plus the two extreme schedules
\* a cut at 0 is an empty first chunk (nothing of the header has arrived yet: the object must not settle on an encoding)
CutSets == {S \in SUBSET (0..(ChunkLen - 1)) : Cardinality(S) <= MaxCuts}
ChunkRows == {[kind |-> "chunk", cls |-> k, enc |-> e, text |-> t, cuts |-> SetToSortSeq(S, <), every |-> FALSE] :
                  k \in {"incdec", "incenc", "reader", "writer"}, e \in Encodings \ {"ascii"},
                  t \in {"plain", "rule", "rulecut", "empty"}, S \in CutSets}
             \cup {[kind |-> "chunk", cls |-> k, enc |-> e, text |-> t, cuts |-> <<>>, every |-> TRUE] :
                  k \in {"incdec", "incenc", "reader", "writer"}, e \in Encodings \ {"ascii"}, t \in {"plain", "rule", "rulecut", "empty"}}
\* force=False with a given encoding that DISAGREES with the explicit statement in the bytes: the statement wins, however the
\* bytes are cut (the decision must wait until the BOM / the @charset rule is complete)
NoForceRows == {[kind |-> "chunk", cls |-> k, enc |-> e, text |-> t, cuts |-> SetToSortSeq(S, <), every |-> FALSE] :
                  k \in {"incdec-noforce", "reader-noforce"}, e \in {"utf-8-sig", "utf-16", "utf-32", "utf-8", "koi8-r"},
                  t \in {"plain", "rule"}, S \in CutSets}
               \cup {[kind |-> "chunk", cls |-> k, enc |-> e, text |-> t, cuts |-> <<>>, every |-> TRUE] :
                  k \in {"incdec-noforce", "reader-noforce"}, e \in {"utf-8-sig", "utf-16", "utf-32", "utf-8", "koi8-r"}, t \in {"plain", "rule"}}
\* no encoding given at all: the object detects it (decoders: BOM, @charset rule or the byte pattern of a BOM-less wide encoding whose
\* rule names something else; encoders: from the @charset rule of the text), however the input is cut
AutoRows == {[kind |-> "chunk", cls |-> k, enc |-> e, text |-> t, cuts |-> SetToSortSeq(S, <), every |-> FALSE] :
                  k \in {"incdec-auto", "reader-auto"}, e \in {"utf-16-le", "utf-16-be", "utf-32-le", "utf-32-be", "utf-8", "utf-8-sig", "utf-16", "utf-32", "iso-8859-1"},
                  t \in {"plain", "rule", "rule-other"}, S \in CutSets}
            \cup {[kind |-> "chunk", cls |-> k, enc |-> e, text |-> t, cuts |-> <<>>, every |-> TRUE] :
                  k \in {"incdec-auto", "reader-auto"}, e \in {"utf-16-le", "utf-16-be", "utf-32-le", "utf-32-be", "utf-8", "utf-8-sig", "utf-16", "utf-32", "iso-8859-1"},
                  t \in {"plain", "rule", "rule-other"}}
            \cup {[kind |-> "chunk", cls |-> k, enc |-> e, text |-> t, cuts |-> SetToSortSeq(S, <), every |-> FALSE] :
                  k \in {"incenc-auto", "writer-auto"}, e \in {"iso-8859-1", "koi8-r", "utf-16", "utf-32-be", "utf-8", "utf-8-sig"}, t \in {"plain", "rule"}, S \in CutSets}
Rows == DetectRows \cup CharsetRows \cup RoundRows \cup ChunkRows \cup NoForceRows \cup AutoRows
Init == row \in Rows
Next == UNCHANGED row
Spec == Init /\ [][Next]_row

\* the table is prefix-stable: the final answer for a prefix is allowed as a non-final answer only if every
\* extension agrees - and "unknown yet" is always allowed; every complete input has at least one allowed answer
TableTotal == row.kind = "detect" => Expected(row.bs) # {}
EmitRow == PrintT(<<"ROW", ToJson(row)>>)
=============================================================================
