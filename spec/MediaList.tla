----------------------------- MODULE MediaList -----------------------------
(* Machine explored by TLC: histories of mediaText assignment, appendMedium, deleteMedium and item      *)
(* assignment on one media list.  cm (leading comment written by the last text assignment) and hist are *)
(* labels that diversify / record the generated behaviours; they do not influence the semantics.       *)
EXTENDS MediaListContract
CONSTANTS Queries,      \* query spellings used for append / setitem / 1- and 2-element texts (BadQ added)
          TextTypes,    \* simple types used for 3-element texts
          MaxLen, MaxHist
CONSTANT Emit   \* TRUE in the behaviour-generation configs: print every explored transition
VARIABLES list, cm, hist
vars == <<list, cm, hist>>

QB == Queries \cup BadQs
Texts == {<<q>> : q \in QB} \cup {<<p, q>> : p \in QB, q \in QB} \cup {<<p, b, q>> : p \in TextTypes, b \in BadQs, q \in TextTypes}
            \cup {<<p, q, r>> : p \in TextTypes, q \in TextTypes, r \in TextTypes}
Alphabet ==
    {[op |-> "settext", qs |-> t, comment |-> c] : t \in Texts \cup {<<>>}, c \in BOOLEAN}
    \cup {[op |-> "append", q |-> q] : q \in QB}
    \cup {[op |-> "delete", q |-> q] : q \in {q \in Queries : Simple(CanonQ(q))} \cup {"tty"}}
    \cup {[op |-> "setitem", i |-> i, q |-> q] : i \in 1..MaxLen, q \in QB}

Act(a) == /\ Len(hist) < MaxHist
          /\ (a.op = "setitem" => a.i \in 1..Len(list))
          /\ ~Silent(list, a)
          /\ list' = Ref(list, a).list
          /\ cm' = IF a.op = "settext" /\ Ref(list, a).out = "ok" THEN a.comment ELSE cm
          /\ hist' = Append(hist, a)
          /\ (Emit => PrintT(<<"HIST", ToJson([h |-> Append(hist, a), s |-> <<list, cm>>])>>))
Init == list = <<>> /\ cm = FALSE /\ hist = <<>>
Next == \E a \in Alphabet : Act(a)
Spec == Init /\ [][Next]_vars
Bounded == Len(list) <= MaxLen
View == <<list, cm>>

\* design-level properties of the contract
AlwaysCanonical == Canonical(list)
RefAccepted == [][FirstFailing(list, hist'[Len(hist')],
                       [list |-> list', out |-> Ref(list, hist'[Len(hist')]).out, ret |-> ""], "raise") = "ok"]_vars
AppendIsLast == [][LET a == hist'[Len(hist')] IN
                    (a.op = "append" /\ Ref(list, a).out = "ok") => list'[Len(list')] = CanonQ(a.q)]_vars
DeleteExact == [][LET a == hist'[Len(hist')] IN
                    (a.op = "delete" /\ Ref(list, a).out = "ok") =>
                        /\ CanonQ(a.q) \notin Range(list') /\ Len(list') = Len(list) - 1
                        /\ Range(list') = Range(list) \ {CanonQ(a.q)}]_vars
RejectedUnchanged == [][Ref(list, hist'[Len(hist')]).out \in DOMExc => list' = list]_vars
MeaningIdempotent == Meaning(Meaning(list)) = Meaning(list)

EmitWalk == Len(hist) = MaxHist => PrintT(<<"WALK", ToJson(hist)>>)
EmitAlphabet == hist = <<>> => PrintT(<<"ALPHABET", ToJson(Alphabet)>>)
=============================================================================
