SPECIFICATION Spec
INVARIANT MatrixWellFormed
INVARIANT EmitRow
