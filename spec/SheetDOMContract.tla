-------------------------- MODULE SheetDOMContract --------------------------
(***************************************************************************)
(* C09 / C11: a CSSStyleSheet stays structurally valid under any sequence  *)
(* of DOM edits, accepted or rejected.                                     *)
(*                                                                         *)
(* Abstract state: rules = sequence of [k |-> kind, d |-> detail,          *)
(* kids |-> sequence of child kinds]  (detail: "prefix=uri" of @namespace, *)
(* encoding of @charset, "" otherwise).  The adapter additionally reports  *)
(* for every reachable rule / declaration block / property whether it      *)
(* names its actual container as parent, and the same for every object it  *)
(* has ever handed to or removed from the sheet ("detached").              *)
(*                                                                         *)
(* The contract is permissive where the property is silent: which legal    *)
(* inserts are accepted is not demanded; an accepted ordered add may pick  *)
(* any index that leaves the sheet valid.                                  *)
(***************************************************************************)
EXTENDS Naturals, Sequences, FiniteSets, TLC, SequencesExt, Json

DOMExc == {"SyntaxErr", "HierarchyRequestErr", "NamespaceErr", "IndexSizeErr",
           "InvalidModificationErr", "NoModificationAllowedErr", "NotFoundErr",
           "InvalidCharacterErr", "InvalidStateErr", "InvalidAccessErr"}
Kinds  == {"charset", "import", "namespace", "variables", "media", "page", "fontface", "style", "comment", "unknown", "margin"}
Strict == {"import", "namespace", "style", "media", "page", "fontface"}
Rank(k) == CASE k = "import" -> 1 [] k = "namespace" -> 2 [] OTHER -> 3
KindsOf(rs) == [i \in 1..Len(rs) |-> rs[i].k]

OneCharsetFirst(rs) == \A i \in 1..Len(rs) : rs[i].k = "charset" => i = 1
Ordered(rs) == \A i, j \in 1..Len(rs) :
                  (i < j /\ rs[i].k \in Strict /\ rs[j].k \in Strict) => Rank(rs[i].k) <= Rank(rs[j].k)
ChildrenAllowed(r) ==
    CASE r.k = "media" -> \A i \in 1..Len(r.kids) : r.kids[i] \notin {"charset", "import", "namespace", "fontface", "margin"}
      [] r.k = "page"  -> \A i \in 1..Len(r.kids) : r.kids[i] \notin {"charset", "import", "namespace", "fontface", "page", "media"}
      [] OTHER -> r.kids = <<>>
Valid(rs) == OneCharsetFirst(rs) /\ Ordered(rs) /\ \A i \in 1..Len(rs) : ChildrenAllowed(rs[i])

\* ---- list surgery (indexes are 0-based, as in the API) --------------------------------------------
Ins(rs, r, i) == SubSeq(rs, 1, i) \o <<r>> \o SubSeq(rs, i + 1, Len(rs))
Del(rs, i)    == SubSeq(rs, 1, i) \o SubSeq(rs, i + 2, Len(rs))
NonNs(rs)     == SelectSeq(rs, LAMBDA r : r.k # "namespace")
UriOf(d)      == d    \* details of namespace rules are compared whole; clean-up is described by NsCleanups below
\* a namespace insert may clean up: any subset of the OTHER namespace rules may disappear (the mapping keeps one
\* rule per URI; which ones is C15's subject).  Everything that is not a namespace rule stays, in order.
NsOnlyDiffers(a, b) == NonNs(a) = NonNs(b)

\* ---- what an accepted / rejected step may do ---------------------------------------------------------
SetEnc(rs, e) == IF e = "none" THEN (IF Len(rs) > 0 /\ rs[1].k = "charset" THEN Tail(rs) ELSE rs)
                 ELSE IF Len(rs) > 0 /\ rs[1].k = "charset" THEN [rs EXCEPT ![1].d = e]
                 ELSE <<[k |-> "charset", d |-> e, kids |-> <<>>]>> \o rs
Container(rs, j) == rs[j + 1]
WithKids(rs, j, ks) == [rs EXCEPT ![j + 1].kids = ks]
InsK(ks, c, i) == SubSeq(ks, 1, i) \o <<c>> \o SubSeq(ks, i + 1, Len(ks))
DelK(ks, i) == SubSeq(ks, 1, i) \o SubSeq(ks, i + 2, Len(ks))

StepFailing(rs, a, out, post) ==
    IF out \in DOMExc \/ out \notin {"ok"} THEN (IF post = rs THEN "ok" ELSE "RejectedUnchanged")
    ELSE CASE a.op = "insert" ->
                 IF a.i > Len(rs) THEN "IndexSizeRejected"
                 ELSE IF post = Ins(rs, a.r, a.i) THEN "ok"
                 ELSE IF a.r.k = "namespace" /\ NsOnlyDiffers(post, rs) /\ Len(post) <= Len(rs) + 1 THEN "ok"
                 ELSE "InsertPutsRuleAtIndex"
           [] a.op = "add" ->
                 IF \E i \in 0..Len(rs) : post = Ins(rs, a.r, i) THEN "ok"
                 ELSE IF a.r.k = "charset" /\ post = SetEnc(rs, a.r.d) THEN "ok"
                 ELSE IF a.r.k = "namespace" /\ NsOnlyDiffers(post, rs) /\ Len(post) <= Len(rs) + 1 THEN "ok"
                 ELSE "AddPutsRuleSomewhere"
           [] a.op = "delete" ->
                 IF a.i >= Len(rs) THEN "IndexSizeRejected"
                 ELSE IF post = Del(rs, a.i) THEN "ok" ELSE "DeleteRemovesExactlyThatRule"
           [] a.op = "settext" ->
                 IF ~Valid(a.rules) THEN "ok"          \* an ill-ordered text that is nevertheless accepted: only validity is demanded
                 ELSE IF post = a.rules THEN "ok" ELSE "TextDenotesRules"
           [] a.op = "setenc" -> IF post = SetEnc(rs, a.e) THEN "ok" ELSE "EncodingEditsRuleZeroOnly"
           [] a.op \in {"nsset", "nsdel"} -> IF NsOnlyDiffers(post, rs) THEN "ok" ELSE "NamespaceEditTouchesOnlyNamespaceRules"
           [] a.op = "styleset" -> IF post = rs THEN "ok" ELSE "DeclarationEditLeavesRuleList"
           [] a.op = "kidinsert" ->
                 IF a.j >= Len(rs) \/ a.i > Len(Container(rs, a.j).kids) THEN "IndexSizeRejected"
                 ELSE IF post = WithKids(rs, a.j, InsK(Container(rs, a.j).kids, a.c, a.i)) THEN "ok" ELSE "NestedInsertPutsRuleAtIndex"
           [] a.op = "kidadd" ->
                 IF a.j >= Len(rs) THEN "IndexSizeRejected"
                 ELSE IF \E i \in 0..Len(Container(rs, a.j).kids) :
                           post = WithKids(rs, a.j, InsK(Container(rs, a.j).kids, a.c, i)) THEN "ok" ELSE "NestedAddPutsRuleSomewhere"
           [] a.op = "kidinsertlist" -> "ok"      \* whatever is taken over: the state invariants (ChildrenAllowed, parents) judge the result
           [] a.op = "kiddelete" ->
                 IF a.j >= Len(rs) \/ a.i >= Len(Container(rs, a.j).kids) THEN "IndexSizeRejected"
                 ELSE IF post = WithKids(rs, a.j, DelK(Container(rs, a.j).kids, a.i)) THEN "ok" ELSE "NestedDeleteRemovesExactlyThatRule"

\* ---- invariants of every observed state -----------------------------------------------------------------
StateFailing(o) ==
    IF ~OneCharsetFirst(o.rules) THEN "OneCharsetFirst"
    ELSE IF ~Ordered(o.rules) THEN "Ordered"
    ELSE IF \E i \in 1..Len(o.rules) : ~ChildrenAllowed(o.rules[i]) THEN "ChildrenAllowed"
    ELSE IF \E i \in 1..Len(o.parents) : o.parents[i] # "ok" THEN "ParentMirror"
    ELSE IF \E i \in 1..Len(o.detached) : o.detached[i] # "none" THEN "DetachedHaveNoParent"
    ELSE IF o.reparsed # KindsOf(o.rules) THEN "ReparseKeepsEveryRule"
    ELSE "ok"
=============================================================================
