SPECIFICATION Spec
CONSTANTS
  Emit = FALSE
  Lits = {"color", "COLOR", "c~olor", "left"}
  Values = {"red", "blue"}
  Prios = {"", "!important", "!IMPORTANT"}
  MaxLen = 3
  MaxHist = 5
CONSTRAINT Bounded
VIEW View
INVARIANT TypeOK
INVARIANT ImportantWins
PROPERTY RefAllowed
PROPERTY SetIsEffective
PROPERTY RemoveExact
PROPERTY RejectedUnchanged
