---------------------------- MODULE EncChainTrace ----------------------------
EXTENDS EncChainContract, IOUtils
VARIABLES tid, l, bad
Traces == ndJsonDeserialize(IOEnv.TRACE_FILE)
StepClause(pre, ev) == CASE ev.a.kind = "chain" -> ChainFailing(ev.a, ev.post) [] ev.a.kind = "edit" -> EditFailing(ev.a, ev.post)
                         [] OTHER -> EscapeFailing(ev.a, ev.post)
StateClause(o) == "ok"
INSTANCE Monitor
=============================================================================
