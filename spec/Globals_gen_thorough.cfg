SPECIFICATION Spec
CONSTANTS
  Emit = TRUE
  Deviations = TRUE
  Parsers = {"p1", "p2"}
  MaxHist = 4
VIEW View
INVARIANT EmitAlphabet
