------------------------------ MODULE Mutators ------------------------------
(***************************************************************************)
(* The matrix of C11: DOM class x public mutator x stage at which the      *)
(* input is rejected x prior state x attachment x read-only flag.  TLC     *)
(* enumerates it completely (one initial state per cell); the adapter      *)
(* renders every applicable cell into a real call.                         *)
(***************************************************************************)
EXTENDS MutatorsContract
VARIABLE cell

MutatorsOf(c) ==
    CASE c = "sheet"         -> {"cssText", "insertRule", "add", "deleteRule", "encoding", "nsset", "nsdel"}
      [] c = "stylerule"     -> {"cssText", "selectorText", "styleText"}
      [] c = "mediarule"     -> {"cssText", "insertRule", "add", "deleteRule", "mediaText"}
      [] c = "pagerule"      -> {"cssText", "selectorText", "styleText", "insertRule", "add", "deleteRule"}
      [] c = "importrule"    -> {"cssText", "mediaText", "href"}
      [] c = "namespacerule" -> {"cssText", "prefix", "namespaceURI"}
      [] c = "charsetrule"   -> {"cssText", "encoding"}
      [] c = "fontfacerule"  -> {"cssText", "styleText"}
      [] c = "comment"       -> {"cssText"}
      [] c = "unknownrule"   -> {"cssText"}
      [] c = "variablesrule" -> {"cssText", "variablesText"}
      [] c = "marginrule"    -> {"cssText", "margin", "styleText"}
      [] c = "declaration"   -> {"cssText", "setProperty", "setPropertyPriority", "removeProperty", "setitem", "delitem", "attrset", "attrdel"}
      [] c = "variablesdecl" -> {"cssText", "setVariable", "removeVariable", "setitem", "delitem"}
      [] c = "property"      -> {"cssText", "name", "value", "priority"}
      [] c = "value"         -> {"cssText"}
      [] c = "colorvalue"    -> {"cssText"}
      [] c = "selectorlist"  -> {"selectorText", "appendSelector", "append", "setitem"}
      [] c = "selector"      -> {"selectorText"}
      [] c = "medialist"     -> {"mediaText", "appendMedium", "append", "deleteMedium", "setitem"}
      [] c = "mediaquery"    -> {"mediaText", "mediaType"}
Classes == {"sheet", "stylerule", "mediarule", "pagerule", "importrule", "namespacerule", "charsetrule", "fontfacerule",
            "comment", "unknownrule", "variablesrule", "marginrule", "declaration", "variablesdecl", "property", "value", "colorvalue", "selectorlist",
            "selector", "medialist", "mediaquery"}
\* where in the new content the offending part sits
Stages == {"immediate",     \* the very first token / the argument as a whole is unacceptable
           "late",          \* an acceptable part comes first (k-th nested rule / selector / declaration / component is bad)
           "nested",        \* the offending part is inside a nested object (a value inside a declaration inside a rule)
           "wrongtype",     \* well-formed text of another kind of rule
           "hierarchy",     \* well-formed but not allowed here
           "index",         \* an index outside the list
           "list"}          \* a rule list as argument whose SECOND member is not allowed here, inserted before the end
\* "odd": a state that only a particular history produces - priorities written !IMPORTANT, a media list holding 'all' next to
\* another type (item assignment), a sheet whose head rules are merged / relocated by in-order insertion
Priors  == {"fresh", "populated", "odd"}
Attach  == {"alone", "insheet"}

Matrix == {[cls |-> c, mut |-> m, stage |-> s, prior |-> p, attach |-> at, readonly |-> ro] :
              c \in Classes, m \in UNION {MutatorsOf(x) : x \in Classes}, s \in Stages, p \in Priors, at \in Attach, ro \in BOOLEAN}
Cells == {x \in Matrix : x.mut \in MutatorsOf(x.cls) /\ (x.readonly => x.stage = "immediate")}

Init == cell \in Cells
Next == UNCHANGED cell
Spec == Init /\ [][Next]_cell
EmitRow == PrintT(<<"ROW", ToJson(cell)>>)
\* every class has at least one mutator and every cell names a mutator of its class
MatrixWellFormed == cell.mut \in MutatorsOf(cell.cls)
=============================================================================
