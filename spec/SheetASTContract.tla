-------------------------- MODULE SheetASTContract --------------------------
(***************************************************************************)
(* C02 (and the reference structure for C03 / C04 / C06): the abstract     *)
(* stylesheet a well-formed source denotes.                                *)
(*   sheet  = sequence of rules                                            *)
(*   rule   = [k |-> "style",     sels, body]                              *)
(*          | [k |-> "media",     queries, rules]                          *)
(*          | [k |-> "import",    href, hreftype, queries, name]           *)
(*          | [k |-> "namespace", prefix, uri]   | [k |-> "charset", enc]  *)
(*          | [k |-> "page",      sel, body, margins]                      *)
(*          | [k |-> "fontface",  body]                                    *)
(*          | [k |-> "comment",   text]          | [k |-> "unknown", text] *)
(*   body   = sequence of [k |-> "decl", name, value, prio] and comments   *)
(*   value  = sequence of components [t |-> type, x |-> canonical text]    *)
(*            with [t |-> "op", x |-> "," | "/"] between them              *)
(* The DOM projection (adapter) yields the same shape through public       *)
(* accessors; the parsed DOM must EQUAL the AST for every spelling.        *)
(***************************************************************************)
EXTENDS Naturals, Sequences, FiniteSets, TLC, SequencesExt, Json

IsComment(x) == x.k = "comment"
NoComments(s) == SelectSeq(s, LAMBDA x : ~IsComment(x))
StripBody(b) == NoComments(b)
RECURSIVE StripRule(_)
StripRule(r) ==
    CASE r.k = "style"    -> [r EXCEPT !.body = StripBody(r.body)]
      [] r.k = "fontface" -> [r EXCEPT !.body = StripBody(r.body)]
      [] r.k = "page"     -> [r EXCEPT !.body = StripBody(r.body),
                                       !.margins = [i \in 1..Len(r.margins) |-> [r.margins[i] EXCEPT !.body = StripBody(r.margins[i].body)]]]
      [] r.k = "media"    -> [r EXCEPT !.rules = [i \in 1..Len(NoComments(r.rules)) |-> StripRule(NoComments(r.rules)[i])]]
      [] OTHER -> r
StripComments(sheet) == [i \in 1..Len(NoComments(sheet)) |-> StripRule(NoComments(sheet)[i])]

\* structural legality of a generated sheet (the generator's invariant: only well-formed sheets are produced)
Rank(k) == CASE k = "charset" -> 0 [] k = "import" -> 1 [] k = "namespace" -> 2 [] k = "comment" -> 9 [] OTHER -> 3
WellOrdered(sheet) == /\ \A i \in 1..Len(sheet) : sheet[i].k = "charset" => i = 1
                      /\ \A i, j \in 1..Len(sheet) : (i < j /\ Rank(sheet[i].k) # 9 /\ Rank(sheet[j].k) # 9) => Rank(sheet[i].k) <= Rank(sheet[j].k)

\* an observation: the projections of parse(render(ast, spelling)) under three parser configurations
SpellingFailing(ast, s) ==
    IF s.out # "ok" THEN "WellFormedSourceParses"
    ELSE IF s.dom # ast THEN "DomIsWhatTheSourceDenotes"
    ELSE IF s.nocomments # StripComments(ast) THEN "DisablingCommentParsingRemovesExactlyTheComments"
    ELSE IF s.novalidate # ast THEN "DisablingValidationChangesNothing"
    ELSE "ok"
RECURSIVE FirstBad(_, _, _)
FirstBad(ast, ss, i) == IF i > Len(ss) THEN "ok"
                        ELSE IF SpellingFailing(ast, ss[i]) # "ok" THEN SpellingFailing(ast, ss[i]) ELSE FirstBad(ast, ss, i + 1)
SheetFailing(row, o) == FirstBad(row.ast, o.spellings, 1)
=============================================================================
