SPECIFICATION Spec
CONSTANTS
  MaxParts = 3
  MaxCompounds = 2
  Emit = TRUE
INVARIANT CountAsSpecified
INVARIANT PelOnlyLast
INVARIANT EmitRow
