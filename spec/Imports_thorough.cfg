SPECIFICATION Spec
CONSTANTS
  MaxEdges = 2
  MaxPerFile = 2
  Emit = TRUE
  Forms = {"rel", "dot", "root", "abs", "schemerel", "up"}
  Medias = {"", "print", "all and (color)"}
INVARIANT RelToInvertsResolve
INVARIANT SpecFlattenMeetsContract
INVARIANT EmitWorld
