SPECIFICATION Spec
CONSTANTS
  Emit = TRUE
  NsPrefixes = {"p", "q", ""}
  Uris = {"u1", "u2"}
  Forms = {"p|e", "q|e", "*|e", "|e", "e", "[p|a]", "z|e", ":not(p|e)", ":not(e)"}
  MaxNs = 2
  MaxSels = 2
  MaxHist = 6
VIEW View
INVARIANT EmitAlphabet
