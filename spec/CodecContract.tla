---------------------------- MODULE CodecContract ----------------------------
(***************************************************************************)
(* C07: the CSS codec (cssutils.codec).                                    *)
(* (a) Detection table of CSS 2.1 section 4.4 over byte classes:           *)
(*       EF BB BF FF FE 00 @ c h a  x (other ASCII)  H (other high byte)   *)
(*     Expected(bs) = the set of answers allowed for the COMPLETE input bs *)
(*     (BOM first, then an ASCII-compatible '@charset "..."' at offset 0,  *)
(*     else UTF-8; the BOM-less wide forms of '@charset' of the CSS 2.1    *)
(*     table are accepted where the statement is silent).  An answer for a *)
(*     PREFIX (more data may follow) must be "unknown yet" or an answer    *)
(*     that is allowed for every extension: never a wrong encoding.        *)
(* (b) decode(encode(t, e)) = t with the name of a leading @charset rule   *)
(*     replaced by the encoding actually used.                             *)
(* (c) the incremental / stream classes produce the one-shot result for    *)
(*     every way of cutting the input into chunks.                         *)
(***************************************************************************)
EXTENDS Naturals, Sequences, FiniteSets, TLC, SequencesExt, Json

Classes == {"EF", "BB", "BF", "FF", "FE", "00", "@", "c", "h", "a", "x", "H"}
None == [enc |-> "none", explicit |-> FALSE]
A(e, x) == [enc |-> e, explicit |-> x]
StartsWith(s, p) == Len(s) >= Len(p) /\ SubSeq(s, 1, Len(p)) = p

\* allowed answers for a complete input given as a sequence of byte classes (no complete @charset rule in it:
\* those are rows of their own)
Expected(bs) ==
    IF StartsWith(bs, <<"EF", "BB", "BF">>) THEN {A("utf-8-sig", TRUE)}
    ELSE IF StartsWith(bs, <<"FF", "FE", "00", "00">>) THEN {A("utf-32", TRUE)}
    ELSE IF StartsWith(bs, <<"00", "00", "FE", "FF">>) THEN {A("utf-32", TRUE)}
    ELSE IF StartsWith(bs, <<"FF", "FE">>) \/ StartsWith(bs, <<"FE", "FF">>) THEN {A("utf-16", TRUE)}
    ELSE IF StartsWith(bs, <<"@", "00", "00", "00">>) THEN {A("utf-32-le", FALSE)}
    ELSE IF StartsWith(bs, <<"00", "00", "00", "@">>) THEN {A("utf-32-be", FALSE)}
    ELSE IF StartsWith(bs, <<"@", "00", "c", "00">>) THEN {A("utf-16-le", FALSE)}
    ELSE IF StartsWith(bs, <<"00", "@", "00", "c">>) THEN {A("utf-16-be", FALSE)}
    ELSE IF StartsWith(bs, <<"00", "@">>) THEN {A("utf-8", FALSE), A("utf-16-be", FALSE)}   \* statement silent
    ELSE {A("utf-8", FALSE)}

Seqs(n) == UNION {[1..k -> Classes] : k \in 0..n}
Extensions(p) == {x \in Seqs(4) : StartsWith(x, p)}
\* the first four classes "@ c h a" may be the start of a charset rule: only "unknown yet" is safe for that prefix
CharsetStart(p) == p # <<>> /\ StartsWith(<<"@", "c", "h", "a">>, p)
AllowedForPrefix(p) ==
    {None} \cup (IF CharsetStart(p) THEN {}
                 ELSE {a \in UNION {Expected(x) : x \in Extensions(p)} : \A x \in Extensions(p) : a \in Expected(x)})

DetectFailing(r, o) ==
    IF r.final THEN (IF o \in Expected(r.bs) THEN "ok" ELSE "DetectionFollowsCss21Table")
    ELSE IF o = None THEN "ok"
    ELSE IF o \in AllowedForPrefix(r.bs) THEN "ok" ELSE "UnknownYetNeverWrong"

\* complete or cut '@charset "name";' inputs, as byte string (str) or as text (unicode).
\* r.cut = number of characters kept, r.full = length up to and including the closing quote
CharsetFailing(r, o) ==
    IF r.cut >= r.full THEN (IF o = A(r.name, TRUE) THEN "ok" ELSE "CharsetRuleNamesEncoding")
    ELSE IF r.final THEN (IF o = A("utf-8", FALSE) THEN "ok" ELSE "IncompleteRuleIsUtf8AtEnd")
    ELSE IF o = None THEN "ok" ELSE "UnknownYetNeverWrong"

\* (b) round trip: the observation names the charset of the decoded text and which body came back
RoundTripFailing(r, o) ==
    IF o.out # "ok" THEN "RoundTripDoesNotRaise"
    ELSE IF o.body # r.body THEN "RoundTripReturnsText"
    ELSE IF r.cs = "none" /\ o.cs # "none" THEN "NoCharsetRuleInvented"
    ELSE IF r.cs # "none" /\ o.cs # r.used THEN "CharsetRuleNamesEncodingUsed"
    ELSE "ok"

\* (c) chunking: concatenated outputs of the incremental / stream object = one-shot result
ChunkFailing(r, o) ==
    IF o.oneshot_error THEN "ok"                            \* the one-shot call itself rejects this input
    ELSE IF o.out # "ok" THEN "ChunkedCallDoesNotRaise"
    ELSE IF o.concat # o.oneshot THEN "ChunkingInvariant"
    ELSE "ok"
=============================================================================
