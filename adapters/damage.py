"""Adapter for spec/DamageContract.tla (C04): inject balanced garbage / misplaced at-rules into rendered base sheets, and
truncate rendered sheets at every position; project the DOM of the damaged text."""
from .common import cssutils, init, outcome
from . import sheetast

TOK = {"ident": "zz", "fn(": "f(", "(": "(", ")": ")", "[": "[", "]": "]", "{": "{", "}": "}", "string": '"s"', "number": "7", ":": ":",
       "!": "!", "@kw": "@kw", ",": ",", "#hash": "#h1", "*": "*", "$": "$"}
V = sheetast.VECTORS[0]


def gtext(g):
    return " ".join(TOK[t] for t in g)


def render_marks(ast):
    """canonical text of the base sheet + for every top-level rule its start/end offsets, the offset after '{' and the end
    offset (after the terminator) of each declaration of style rules"""
    text, marks = "", []
    for i, r in enumerate(ast):
        start = len(text)
        body_ends, open_at = [], None
        if r["k"] == "style":
            head = ", ".join(r["sels"]) + " {"
            text += head
            open_at = len(text)
            decls = [d for d in r["body"] if d["k"] == "decl"]
            for j, d in enumerate(r["body"]):
                if d["k"] == "comment":
                    text += " " + d["text"]
                    body_ends.append(len(text))
                    continue
                t = " %s: %s" % (d["name"], sheetast.value_text(d["value"], V))
                if d["prio"]:
                    t += " !important"
                last = d is decls[-1]
                text += t + ("" if last else ";")
                body_ends.append(None if last else len(text))
            text += " }"
            body_ends = [e if e is not None else len(text) for e in body_ends]
        else:
            text += sheetast.rule_text(r, V)
        marks.append({"start": start, "open": open_at, "decl_ends": body_ends, "end": len(text)})
        text += "\n"
    return text, marks


MISPLACED = {"charset-late": '@charset "utf-8";', "import-late": '@import "late.css";', "namespace-late": '@namespace q "v";',
             "namespace-redeclare-late": '@namespace p "v2";', "namespace-default-late": '@namespace "dd";',
             "margin-outside-page": "@top-left { left: 0 }",
             "import-with-block": '@import "late.css" { e { f: g; h: i } }', "namespace-with-block": '@namespace q "v" { e { f: g; h: i } }'}
IN_MEDIA = {"import-in-media": '@import "m.css";', "charset-in-media": '@charset "utf-8";', "fontface-in-media": "@font-face { font-family: y }"}


def strip_body(body):
    """without the unknown at-rules the adapter injected into a declaration block (keyword @kw)"""
    return [d for d in body if not ((d["k"].startswith("?") or d["k"] == "unknown") and d.get("text", "").lstrip().startswith("@kw"))]


def strip_injected(dom):
    out = []
    for r in dom:
        if "body" in r:
            r = dict(r, body=strip_body(r["body"]))
        if r["k"] == "page":
            r = dict(r, margins=[dict(m, body=strip_body(m["body"])) if "body" in m else m for m in r["margins"]])
        if r["k"] == "unknown" and (r["text"].startswith("@kw") or r["text"].startswith("@garbage")):
            continue
        # the misplaced at-rule itself may or may not be kept
        if r["k"] == "margin" or (r["k"] == "import" and r["href"] in ("late.css", "m.css")) or (r["k"] == "namespace" and (r["prefix"] == "q" or r["uri"] in ("v2", "dd"))) \
                or (r["k"] == "fontface" and any(d.get("name") == "font-family" and d["value"] and d["value"][0]["x"] == "y" for d in r["body"])):
            continue
        if r["k"] == "media":
            r = dict(r, rules=strip_injected(r["rules"]))
        out.append(r)
    return out


def boundaries(text):
    """offsets in the rendered base at which a declaration may start: after the '{' of a declaration block, after every ';'
    inside one, and before its '}' (blocks of @media hold rules, not declarations)"""
    out, stack, start = [], [], 0
    for i, ch in enumerate(text):
        if ch == "{":
            decl = not text[start:i].lstrip().startswith("@media")
            stack.append(decl)
            start = i + 1
            if decl:
                out.append(i + 1)
        elif ch == ";":
            start = i + 1
            if stack and stack[-1]:
                out.append(i + 1)
        elif ch == "}":
            if stack and stack[-1] and text[:i].rstrip()[-1:] not in "{;}":
                out.append(i)           # after a last declaration that has no ';' yet
            if stack:
                stack.pop()
            start = i + 1
    return out


def damaged_text(r):
    ast = r["ast"]
    text, marks = render_marks(ast)
    g = gtext(r["g"])
    w = r["what"]
    if w == "at-in-block":
        bs = boundaries(text)
        if r["at"] >= len(bs):
            return None
        pos = bs[r["at"]]
        rule = {"statement": "@kw %s;" % g, "block": "@kw %s { zz: 1; yy }" % g, "block-rule": "@kw %s { b { top: 9px } }" % g}[r["form"]]
        if r["form"] == "statement" and r["sep"] == "semicolon":
            return None                                     # ';;' - an empty declaration is a different subject
        sep = {"glued": "", "space": " ", "semicolon": ";"}[r["sep"]]
        pre = "; " if text[:pos].rstrip()[-1:] not in "{;}" else " "
        rest = text[pos:].lstrip(" ") if r["sep"] == "glued" else text[pos:]      # glued: the next declaration follows the '}' directly
        return text[:pos] + pre + rule + sep + rest
    if w == "import-nosemi-last-in-media":
        med = [i for i, x in enumerate(ast) if x["k"] == "media"]
        if not med:
            return None
        p = marks[med[0]]["end"] - 1        # the '}' that closes the @media rule also ends the statement
        return text[:p] + ' @import "m.css" ' + text[p:]
    if w == "declaration":
        # at a declaration boundary of rule r["rule"] (1-based), before declaration number r["at"] (0-based), followed by ';'
        i = r["rule"] - 1
        target = ast[i]
        if target["k"] == "media":
            # first nested style rule of the @media rule
            inner_text = text
            pos = inner_text.index("{", inner_text.index("{", marks[i]["start"]) + 1) + 1
            return text[:pos] + " " + g + ";" + text[pos:]
        ends = marks[i]["decl_ends"]
        at = min(r["at"], len(ends))
        pos = marks[i]["open"] if at == 0 else ends[at - 1]
        if at > 0 and at == len(ends):
            # after the last declaration: it has no ';' yet
            pos = ends[-1] - 2
            return text[:pos] + "; " + g + " " + text[pos:]
        return text[:pos] + " " + g + ";" + text[pos:]
    at = min(r["at"], len(ast))
    pos = marks[at]["start"] if at < len(ast) else len(text)
    if w == "selector":
        ins = g + " { top: 9px }\n"
    elif w == "unknown-at-statement":
        ins = "@garbage " + g + ";\n"
    elif w == "unknown-at-block":
        ins = "@garbage " + g + " { " + g + " }\n"
    elif w in MISPLACED:
        ins = MISPLACED[w] + "\n"
    elif w in IN_MEDIA:
        med = [i for i, x in enumerate(ast) if x["k"] == "media"]
        if not med:
            return None
        p = text.index("{", marks[med[0]]["start"]) + 1
        return text[:p] + " " + IN_MEDIA[w] + " " + text[p:]
    else:
        raise ValueError(w)
    return text[:pos] + ins + text[pos:]


def run_row(item):
    init()
    r = dict(item)
    rid = r.pop("id")
    if r["kind"] == "damage":
        text = damaged_text(r)
        if text is None:
            return {"id": rid, "skip": True}
        out, dom = outcome(lambda: strip_injected(sheetast.project(sheetast.parse(text))))
        o = {"out": out, "dom": dom if out == "ok" else [], "text": text}
        a = dict(r, text=text)
        return {"id": rid, "item": {k: v for k, v in a.items() if k != "ast"}, "init": {"x": 0}, "steps": [{"a": a, "out": "ok", "post": o}]}
    # truncation: every CutStep-th prefix
    ast = r["ast"]
    text, marks = render_marks(ast)

    def media_kids(m, start):
        """absolute end offsets of the rules nested in the @media rule m rendered at offset start (same layout as rule_text)"""
        t = "@media " + ", ".join(m["queries"]) + " {"
        kids = []
        for x in m["rules"]:
            t += " "
            kstart = start + len(t)
            t += sheetast.rule_text(x, V)
            kids.append({"ast": x, "start": kstart, "end": start + len(t)})
        t += " }"
        assert t == sheetast.rule_text(m, V), (t, sheetast.rule_text(m, V))
        return kids

    def nested_levels(k):
        """for every @media rule that is open at cut k (at any depth): the rules nested in it that are complete before the cut"""
        levels = []
        for i, m in enumerate(marks):
            if ast[i]["k"] == "media" and m["start"] < k < m["end"]:
                path, node, start = [i], ast[i], m["start"]
                while True:
                    kids = media_kids(node, start)
                    levels.append({"path": list(path), "complete": [c["ast"] for c in kids if c["end"] <= k]})
                    inner = [(j, c) for j, c in enumerate(kids) if c["ast"]["k"] == "media" and c["start"] < k < c["end"]]
                    if not inner:
                        break
                    j, c = inner[0]
                    path.append(j)
                    node, start = c["ast"], c["start"]
        return levels

    def rules_at(dom, path):
        cur = dom
        for n, i in enumerate(path):
            if i >= len(cur) or cur[i].get("k") != "media":
                return []
            cur = cur[i]["rules"]
        return cur
    cuts = []
    for k in range(0, len(text) + 1, r["step"]):
        complete = [ast[i] for i, m in enumerate(marks) if m["end"] <= k]
        openr = [i for i, m in enumerate(marks) if m["end"] > k and m["open"] is not None and m["open"] <= k]
        open_decls = []
        if openr and openr[0] == len(complete):
            i = openr[0]
            open_decls = [d for d, e in zip(ast[i]["body"], marks[i]["decl_ends"]) if e <= k]
        out, dom = outcome(lambda: sheetast.project(sheetast.parse(text[:k])))
        nested = [{"complete": lv["complete"], "got": rules_at(dom, lv["path"]) if out == "ok" else []} for lv in nested_levels(k)]
        cuts.append({"k": k, "out": out, "complete": complete, "open": open_decls, "dom": dom if out == "ok" else [], "prefix": text[:k][-40:],
                     "nested": nested})
    a = {k: v for k, v in r.items() if k != "ast"}
    a["text"] = text
    return {"id": rid, "item": a, "init": {"x": 0}, "steps": [{"a": dict(r), "out": "ok", "post": {"cuts": cuts}}]}
