"""Adapter for spec/SystemContract.tla <-> ONE cssutils sheet '@media all { a {} } b {}' whose nested objects (two declaration
blocks, the @media rule's media list, two selector texts) are edited through the DOM.  Component rendering and projection are
the component adapters' own (adapters.declblock, adapters.medialist): no expectation lives here."""
from .common import cssutils, init, outcome
from . import declblock as D, medialist as M

BAD_SEL = "#badsel"
REACH = [0]     # variant: 0 = objects fetched once (kept references), 1 = fetched again from the sheet before every call


def comps(sheet):
    mr = sheet.cssRules[0]
    r1 = mr.cssRules[0]
    r2 = sheet.cssRules[1]
    return {"mr": mr, "r1": r1, "r2": r2, "d1": r1.style, "d2": r2.style, "ml": mr.media}


def skeleton(sheet):
    out = []
    for r in sheet.cssRules:
        k = {r.MEDIA_RULE: "media", r.STYLE_RULE: "style"}.get(r.type, "other:%s" % r.type)
        out.append(k)
        for c in getattr(r, "cssRules", []) if r.type == r.MEDIA_RULE else []:
            out.append(k + "/" + {c.STYLE_RULE: "style", c.MEDIA_RULE: "media"}.get(c.type, "other:%s" % c.type))
    return out


def parents(sheet):
    out = []

    def rule(r, parent, where):
        out.append("ok" if r.parentStyleSheet is sheet else where + ".parentStyleSheet")
        out.append("ok" if r.parentRule is parent else where + ".parentRule")
        st = getattr(r, "style", None)
        if st is not None:
            out.append("ok" if st.parentRule is r else where + ".style.parentRule")
            for p in st.getProperties(all=True):
                out.append("ok" if p.parent is st else where + ".style.property.parent")
        sl = getattr(r, "selectorList", None)
        if sl is not None:
            out.append("ok" if sl.parentRule is r else where + ".selectorList.parentRule")
            for s in sl:
                out.append("ok" if s.parent is sl else where + ".selector.parent")
        ml = getattr(r, "media", None)
        if ml is not None:
            out.append("ok" if ml.parentRule is r else where + ".media.parentRule")
        for i, c in enumerate(getattr(r, "cssRules", []) if r.type == r.MEDIA_RULE else []):
            rule(c, r, "%s.rule[%d]" % (where, i))
    for i, r in enumerate(sheet.cssRules):
        rule(r, None, "rule[%d]" % i)
    return out


def sel(r):
    return ", ".join(s.selectorText for s in r.selectorList)


def reparsed(text):
    def f():
        s2 = cssutils.parseString(text)
        sk = skeleton(s2)
        if sk != ["media", "media/style", "style"]:
            return {"skeleton": sk, "d1": [], "d2": [], "ml": [], "s1": "", "s2": ""}
        c = comps(s2)
        return {"skeleton": sk, "d1": D.entries(c["d1"]), "d2": D.entries(c["d2"]), "ml": M.queries(c["ml"]),
                "s1": sel(c["r1"]), "s2": sel(c["r2"])}
    out, r = outcome(f)
    cssutils.log.raiseExceptions = True
    return r if out == "ok" else {"skeleton": ["#unparsable:" + out], "d1": [], "d2": [], "ml": [], "s1": "", "s2": ""}


def project(sheet):
    sk = skeleton(sheet)
    text = sheet.cssText.decode("utf-8")
    if sk != ["media", "media/style", "style"]:
        e = D.project(cssutils.css.CSSStyleDeclaration())
        return {"skeleton": sk, "parents": [], "d1": e, "d2": e, "ml": M.project(cssutils.stylesheets.MediaList(), "none", None),
                "s1": "", "s2": "", "sheettext": text, "re": reparsed(text)}
    c = comps(sheet)
    return {"skeleton": sk, "parents": parents(sheet), "d1": D.project(c["d1"]), "d2": D.project(c["d2"]),
            "ml": M.project(c["ml"], "media", c["mr"]), "s1": sel(c["r1"]), "s2": sel(c["r2"]),
            "sheettext": text, "re": reparsed(text)}


def apply(c, e, k):
    t, a = e["target"], e["a"]
    if t in ("d1", "d2"):
        return D.apply(c[t], a)
    if t == "ml":
        return M.apply(c["ml"], a, k)
    r = c["r1"] if t == "s1" else c["r2"]
    return outcome(lambda: setattr(r, "selectorText", "{" if a["sel"] == BAD_SEL else a["sel"]))


def run_trace(item):
    init()
    D.COMMENTS[0] = False
    D.ASOBJ[0] = bool(item.get("asobj"))
    M.RAISE[0] = True
    M.VIAQUERY[0] = False
    sheet = cssutils.parseString("@media all { a { } } b { }")
    cssutils.ser.prefs.keepEmptyRules = True
    cssutils.log.raiseExceptions = True
    c = comps(sheet)
    c["ml"].deleteMedium("all")
    refetch = bool(item.get("refetch"))
    tr = {"id": item["id"], "init": project(sheet), "steps": []}
    for k, e in enumerate(item["actions"]):
        if refetch:
            c = comps(sheet)
        out, ret = apply(c, e, k + item["id"])
        cssutils.log.raiseExceptions = True
        tr["steps"].append({"target": e["target"], "a": e["a"], "out": out, "ret": ret if isinstance(ret, str) else "",
                            "post": project(sheet)})
    return tr
