"""Adapter for spec/ValidateContract.tla (C13): verdicts of cssutils.profile / Property.valid for table rows and
metamorphic variants (spelling, round trip, origin, validation flag, context)."""
from .common import cssutils, init, outcome
import cssutils.css as css

KIND = {"length": ["1px", "2.5em", "10pt", ".5em", "1.0000001px"], "neglength": ["-1px", "-2.5em"], "percentage": ["50%", "12.5%", ".5%", "99.9999999%"], "negpercentage": ["-50%"],
        "number": ["1.5", "0.25", ".25", "2.9999999"], "integer": ["3", "+7"], "negint": ["-3"], "zero": ["0"], "hash3": ["#abc"], "hash6": ["#aabbcd"],
        "rgbfn": ["rgb(1, 2, 3)", "rgb(10%, 20%, 30%)"], "colorname": ["red", "navy"], "uri": ["url(x.png)", 'url("x.png")'], "string": ['"s"'],
        "unitless5": ["5"], "angle": ["90deg"], "time": ["2s"], "ident-bogus": ["bogus-value"]}
CSS21 = None


def cssname(p):
    return p.replace("_", "-")


def run_table(r, rid):
    vals = KIND.get(r["value"], [r["value"]])
    value = vals[rid % len(vals)]
    name = cssname(r["prop"])
    P = cssutils.profile

    def f():
        defining = [p for p in P.profiles if name in list(P.propertiesByProfile(p))]
        anyp = False
        for p in defining:
            v, matching, profs = P.validateWithProfile(name, value, p)
            anyp = anyp or bool(v and matching)
        # the same pair as a declaration: constructed, and parsed inside a rule
        decl = [bool(css.Property(name, value).valid)]
        ps = cssutils.parseString("a { %s: %s }" % (name, value)).cssRules[0].style.getProperties(all=True)
        decl.append(bool(ps[0].valid) if ps else None)
        return {"out": "ok", "name": name, "text": value, "valid": bool(P.validate(name, value)), "anyprofile": anyp,
                "onlycss2": defining == [P.CSS_LEVEL_2], "defined": bool(defining), "decl": decl}
    out, o = outcome(f)
    return o if out == "ok" else {"out": out, "name": name, "text": value, "valid": False, "anyprofile": False, "onlycss2": False, "defined": False, "decl": []}


CANDIDATES = ["0.5em", "bolder", "inherit", "none", "auto", "normal", "1px", "0", "50%", "red", "1", "url(x)", '"s"', "bold", "left", "solid", "block", "x, y", "1px 2px",
              "bogus-value", "12deg", "#abc"]


def respell(value, k):
    if k == 0:
        return value.upper() if value.isalpha() or "-" in value and value.replace("-", "").isalpha() else value
    if k == 1:
        return "  " + value.replace(" ", "   ") + "  "
    if k == 2:
        return "/*c*/" + value.replace(" ", " /*d*/ ") + "/*e*/"
    if k == 3:
        return value.replace('"', "'")
    return value


def run_meta(r):
    name, value = r["name"], r["value"]

    def f():
        base = css.Property(name, value).valid
        spellings = []
        for k in range(4):
            sheet = cssutils.parseString("a { %s: %s }" % (name if k != 1 else name.upper(), respell(value, k)))
            ps = sheet.cssRules[0].style.getProperties(all=True)
            spellings.append(bool(ps[0].valid) if ps else None)
        # ... nor on how an !important priority is spelled
        for prio in ("!important", "! IMPORTANT", "!/*c*/Important"):
            sheet = cssutils.parseString("a { %s: %s %s }" % (name, value, prio))
            ps = sheet.cssRules[0].style.getProperties(all=True)
            spellings.append(bool(ps[0].valid) if ps else None)
        # the verdict does not depend on serializer preferences (the value is re-serialised before it is validated)
        cssutils.ser.prefs.omitLeadingZero = True
        sheet = cssutils.parseString("a { %s: %s }" % (name, value))
        ps = sheet.cssRules[0].style.getProperties(all=True)
        spellings.append(bool(ps[0].valid) if ps else None)
        cssutils.ser.prefs.useDefaults()
        # @font-face context: however the property came to exist there
        ff = []
        s_ff = cssutils.parseString("@font-face { %s: %s }" % (name, value))
        pff = s_ff.cssRules[0].style.getProperties(all=True) if s_ff.cssRules.length else []
        ff.append(bool(pff[0].valid) if pff else None)
        r_ff = cssutils.parseString("@font-face { font-family: x }").cssRules[0]
        r_ff.style.setProperty(name, value)
        ff.append(bool(r_ff.style.getProperty(name).valid))
        r_ff2 = cssutils.parseString("@font-face { font-family: x }").cssRules[0]
        r_ff2.style.setProperty(css.Property(name, value))
        ff.append(bool(r_ff2.style.getProperty(name).valid))
        r_ff3 = css.CSSFontFaceRule(style="%s: %s" % (name, value))
        ff.append(bool(r_ff3.style.getProperties(all=True)[0].valid))
        # a Property OBJECT that already belongs to an ordinary declaration block, handed to the @font-face block
        donor = cssutils.parseString("a { %s: %s }" % (name, value)).cssRules[0].style
        if donor.length:
            r_ff4 = cssutils.parseString("@font-face { font-family: x }").cssRules[0]
            r_ff4.style.setProperty(donor.getProperties(all=True)[0])
            ff.append(bool(r_ff4.style.getProperty(name).valid))
        ffrule = bool(r_ff2.valid) == all(bool(p.valid) for p in r_ff2.style.getProperties(all=True))
        # a sheet is valid iff all its declarations are - wherever they sit: inside @media, inside @font-face
        s_m = cssutils.parseString("b { left: 1px } @media print { a { %s: %s } }" % (name, value))
        s_f = cssutils.parseString("b { left: 1px } @font-face { font-family: x; src: url(x); %s: %s }" % (name, value))
        f_decl = [p for p in s_f.cssRules[1].style.getProperties(all=True) if p.name == css.Property(name, value).name] if s_f.cssRules.length > 1 else []
        # a declaration that is shadowed by a later one of the same name (or an earlier !important one) still counts
        s_d = cssutils.parseString("b { left: 1px } @font-face { font-family: x; src: url(x); font-weight: bolder; font-weight: bold; "
                                   "font-style: italic !important; font-style: slanted; %s: %s }" % (name, value))
        dup_conj = s_d.cssRules.length > 1 and (bool(s_d.valid) == all(bool(p.valid) for p in s_d.cssRules[1].style.getProperties(all=True))
                                                 and bool(s_d.cssRules[1].valid) == all(bool(p.valid) for p in s_d.cssRules[1].style.getProperties(all=True)))
        # ... a declaration inside a margin box of an @page rule whose own declarations are valid
        s_pm = cssutils.parseString("b { left: 1px } @page { margin: 1cm; @top-left { %s: %s } }" % (name, value))
        pm_rule = s_pm.cssRules[1] if s_pm.cssRules.length > 1 else None
        pm_decls = [p for m in pm_rule.cssRules for p in m.style.getProperties(all=True)] if pm_rule is not None else []
        pm_conj = pm_rule is not None and bool(s_pm.valid) == bool(pm_rule.valid) == all(bool(p.valid) for p in pm_decls)
        # with the default profiles restricted to CSS 2.1 the verdict is computed outside a parse (errors would be raised there):
        # it is an answer, not an exception, and the declaration is stored with validation on exactly as with validation off
        prof = cssutils.profile
        prof.defaultProfiles = prof.CSS_LEVEL_2
        try:
            o_r, _ = outcome(lambda: bool(css.Property(name, value).valid))
            def stored(validating):
                st = css.CSSStyleDeclaration(validating=validating)
                st.cssText = "left: 0; %s: %s" % (name, value)
                return [(p.name, p.value) for p in st.getProperties(all=True)]
            o_on, d_on = outcome(lambda: stored(True))
            o_off, d_off = outcome(lambda: stored(False))
            restricted_ok = o_r == "ok" and o_on == "ok" and o_off == "ok" and d_on == d_off
        finally:
            prof.defaultProfiles = None
        s_p = cssutils.parseString("b { left: 1px } @page { %s: %s }" % (name, value))
        nested = {"page_sheet": bool(s_p.valid), "media_sheet": bool(s_m.valid), "ff_sheet": bool(s_f.valid), "ff_decl": bool(f_decl[-1].valid) if f_decl else True, "ff_dup_conj": bool(dup_conj), "page_margin_conj": bool(pm_conj), "restricted_ok": bool(restricted_ok),
                  "ff_others": all(bool(p.valid) for p in s_f.cssRules[1].style.getProperties(all=True) if p not in f_decl) if s_f.cssRules.length > 1 else True}
        sheet = cssutils.parseString("a { %s: %s }" % (name, value))
        rule = sheet.cssRules[0]
        s2 = cssutils.parseString(sheet.cssText)
        ps2 = s2.cssRules[0].style.getProperties(all=True) if s2.cssRules.length else []
        roundtrip = bool(ps2[0].valid) if ps2 else None
        origins = []
        st = css.CSSStyleDeclaration()
        st.setProperty(name, value)
        origins.append(bool(st.getProperties(all=True)[0].valid))
        st2 = css.CSSStyleDeclaration(cssText="%s: %s" % (name, value))
        origins.append(bool(st2.getProperties(all=True)[0].valid))
        st3 = css.CSSStyleDeclaration()
        st3.setProperty(css.Property(name, value))
        origins.append(bool(st3.getProperties(all=True)[0].valid))
        r2 = css.CSSStyleRule(selectorText="a", style="%s: %s" % (name, value))
        origins.append(bool(r2.style.getProperties(all=True)[0].valid))
        # ... and the other way round: an object that belongs to an @font-face block, handed to an ordinary block
        donor2 = cssutils.parseString("@font-face { %s: %s }" % (name, value)).cssRules[0].style
        if donor2.length:
            st4 = cssutils.parseString("a { left: 0 }").cssRules[0].style
            st4.setProperty(donor2.getProperties(all=True)[0])
            origins.append(bool(st4.getProperty(name).valid))
        on = cssutils.CSSParser(validate=True).parseString("a { %s: %s } b { left: 1px }" % (name, value))
        off = cssutils.CSSParser(validate=False).parseString("a { %s: %s } b { left: 1px }" % (name, value))
        cssutils.log.raiseExceptions = True

        def dom(s):
            return [[(p.name, p.value, p.priority) for p in x.style.getProperties(all=True)] for x in s.cssRules]
        return {"out": "ok", "fontface": ff, "fontface_rule_conj": ffrule, "base": bool(base), "spellings": spellings, "roundtrip": roundtrip, "origins": origins,
                "rulevalid": bool(rule.valid), "sheetvalid": bool(sheet.valid), "nested": nested,
                "text_validate_on": on.cssText.decode(), "text_validate_off": off.cssText.decode(),
                "dom_validate_on": json_safe(dom(on)), "dom_validate_off": json_safe(dom(off))}
    out, o = outcome(f)
    if out != "ok":
        o = {"out": out, "fontface": [], "fontface_rule_conj": True, "base": False, "spellings": [], "roundtrip": False, "origins": [], "rulevalid": False, "sheetvalid": False,
             "nested": {"page_sheet": False, "media_sheet": False, "ff_sheet": False, "ff_decl": False, "ff_others": True, "ff_dup_conj": True, "page_margin_conj": True, "restricted_ok": True}, "text_validate_on": "", "text_validate_off": "", "dom_validate_on": [], "dom_validate_off": []}
    return o


def json_safe(x):
    return [[list(p) for p in r] for r in x]


def run_row(item):
    init()
    r = dict(item)
    rid = r.pop("id")
    if r["kind"] == "table":
        o = run_table(r, rid)
    elif r["kind"] == "meta":
        o = run_meta(r)
    else:
        out, v = outcome(lambda: bool(css.Property(r["name"], r["value"]).valid) or bool(cssutils.profile.validate(r["name"], r["value"])))
        o = {"out": out, "valid": bool(v)}
    return {"id": rid, "item": dict(r, text=o.get("text", r.get("value", ""))), "init": {"x": 0}, "steps": [{"a": r, "out": "ok", "post": o}]}
