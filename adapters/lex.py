"""Adapter for spec/LexContract.tla <-> cssutils.tokenize2.Tokenizer (C05)."""
import signal, sys, re
sys.path.insert(0, __import__("os").environ.get("VERIF_REPO", "/repo"))
import cssutils  # noqa: E402
from cssutils.tokenize2 import Tokenizer  # noqa: E402
import logging, xml.dom

CLASS = {"bs": "\\", "dq": '"', "sq": "'", "sl": "/", "st": "*", "mi": "-", "pl": "+", "dot": ".", "pc": "%", "ha": "#", "at": "@", "ex": "!",
         "lt": "<", "gt": ">", "eq": "=", "ti": "~", "pi": "|", "ca": "^", "do": "$", "qm": "?", "us": "_", "lp": "(", "rp": ")", "lb": "{",
         "rb": "}", "ls": "[", "rs": "]", "sc": ";", "co": ":", "cm": ",", "dig": "1", "hexl": "a", "let": "g", "u": "u", "r": "r", "l": "l",
         "sp": " ", "tab": "\t", "lf": "\n", "cr": "\r", "ff": "\f", "na": "\u00e9", "ctl": "\x01", "d6": "6", "d1": "1", "g": "g", "a": "a", "nbsp": "\u00a0", "vt": "\x0b", "as": "\U00010000"}
SEP = {"none": "", "sp": " ", "tab": "\t", "lf": "\n", "crlf": "\r\n", "ff": "\f", "comment": "/**/"}


def untilde(s):
    s = s.replace("~~", "\x00").replace("~", "\\").replace("\x00", "~")
    return s.replace("^n", "\n").replace("^r", "\r").replace("^f", "\f").replace("^t", "\t")


def cps(s):
    return [ord(c) for c in s]


class Timeout(Exception):
    pass


def _alarm(*a):
    raise Timeout()


def tokenize(text, full):
    signal.signal(signal.SIGALRM, _alarm)
    signal.alarm(10)
    try:
        toks = list(Tokenizer().tokenize(text, fullsheet=full))
        return "ok", [{"type": t[0], "value": cps(t[1]), "line": t[2], "col": t[3]} for t in toks]
    except Timeout:
        return "TIMEOUT", []
    except Exception as e:
        return "EXC:" + type(e).__name__, []
    finally:
        signal.alarm(0)


def run_row(item):
    r = dict(item)
    rid = r.pop("id")
    if r["kind"] == "lex":
        text = "".join(CLASS[c] for c in r["cs"]) if r.get("form") == "classes" else "".join(chr(c) for c in r["cps"])
        out, toks = tokenize(text, r["full"])
        post = {"kind": "lex", "out": out, "text": cps(text), "toks": toks, "full": r["full"]}
    elif r["kind"] == "classify":
        text = untilde(r["texts"][0]) + SEP[r["sep"]] + untilde(r["texts"][1])
        out, toks = tokenize(text, r["full"])
        post = {"kind": "classify", "out": out, "text": cps(text), "toks": toks, "full": r["full"],
                "expect": [{"type": e["type"], "value": cps(untilde(e["value"]))} for e in r["expect"]]}
        r = {k: v for k, v in r.items() if k != "expect"}
    else:
        post = errorpos(r)
    return {"id": rid, "item": r, "init": {"x": 0}, "steps": [{"a": r, "out": "ok", "post": post}]}


def errorpos(r):
    """a raising parser on a sheet with one offending token at a known position"""
    cssutils.log.setLevel(logging.FATAL)
    if r.get("before"):
        try:
            cssutils.CSSParser(raiseExceptions=True).parseString(r["before"])     # an earlier report, about a token
        except Exception:
            pass
    text = r["text"]
    raised, line, col, ml, mc = "none", 0, 0, 0, 0
    try:
        cssutils.CSSParser(raiseExceptions=True).parseString(text)
    except xml.dom.DOMException as e:
        raised = type(e).__name__
        line, col = getattr(e, "line", 0) or 0, getattr(e, "col", 0) or 0
        m = re.search(r"\[(\d+):(\d+): ", str(e))
        if m:
            ml, mc = int(m.group(1)), int(m.group(2))
    except Exception as e:
        raised = "EXC:" + type(e).__name__
    finally:
        cssutils.log.raiseExceptions = True
    return {"kind": "errorpos", "raised": raised, "line": line, "col": col, "msgline": ml, "msgcol": mc,
            "expline": r["expline"], "expcol": r["expcol"], "text": text}


def on_hang(item, fname):
    """the worker had to be killed on this row (harness/pool.py): the tokenizer did not return - same observation as a time-out"""
    global tokenize
    real = tokenize
    tokenize = lambda text, full: ("TIMEOUT", [])
    try:
        if item.get("kind") not in ("lex", "classify"):
            raise RuntimeError("parser did not return on %r" % (item,))
        return globals()[fname](item)
    finally:
        tokenize = real
