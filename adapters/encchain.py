"""Adapter for spec/EncChainContract.tla (C08): import chains served by a recording fetcher, and escaping on serialisation."""
import codecs
from .common import cssutils, init, outcome

BOM = codecs.BOM_UTF8


def node_bytes(n, chosen, probe_cp, level, last):
    """content of the sheet at this level, encoded in the encoding the spec chose"""
    head = ""
    if n["mark"].startswith("cs:"):
        head = '@charset "%s";\n' % n["mark"][3:]
    body = head + ('@import "n%d.css";\n' % (level + 1) if not last else "") + 'a { content: "%s" }\n' % chr(probe_cp)
    if n["text"]:
        return body                      # delivered as text: nothing to decode
    if n["mark"] == "bom" and n["http"] != "none":
        # the transport charset wins, so the signature decodes to three junk characters in front of the first statement: a
        # sacrificial rule takes that damage (C04) and leaves the probe rule intact
        body = "x { left: 0 }\n" + body
    if n["mark"] == "bom16":
        # the first character after the signature has a zero LOW byte (U+0100)
        return codecs.BOM_UTF16_LE + ("\u0100, " + body).encode("utf-16-le")
    data = body.encode(chosen)
    if n["mark"] == "bom":
        data = BOM + data
    return data


PROBE = {"iso-8859-1": 233, "utf-8": 233, "iso-8859-5": 1103, "koi8-r": 1103, "utf-16": 1103}


def run_edit(row):
    """parse root + one import, set the encoding of root or child, add a new @import to that sheet"""
    sheet, files = run_chain(row, want_sheet=True)
    new, expnew = row["newnode"], row["expnew"]
    ascii_only = row["how"].endswith("-ascii")       # a target that decodes under any candidate: only the reported encoding differs
    files["m.css"] = (None if new["http"] == "none" else new["http"], node_bytes(new, expnew, 120 if ascii_only else PROBE[expnew], 9, True))
    target = sheet if row["target"] == "root" else [r for r in sheet.cssRules if r.type == r.IMPORT_RULE][0].styleSheet
    if row["how"] == "settext":
        # replace the whole text of the sheet: new @charset rule and the new @import
        target.cssText = ('@charset "%s";\n' % row["newenc"] if row["newenc"] != "none" else "") + '@import "m.css";\nz { left: 0 }'
    else:
        target.encoding = None if row["newenc"] == "none" else row["newenc"]
        if row["how"] == "rejected-charset":
            head = target.cssRules[0] if target.cssRules.length else None
            if head is not None and head.type == head.CHARSET_RULE:
                try:
                    head.encoding = "klingon"         # no such encoding: rejected, the sheet keeps the one it has
                except Exception:
                    pass
            target.add('@import "m.css";')
        elif row["how"].startswith("text"):
            target.add({"text": '@import "m.css";', "text-upper-ascii": '@IMPORT "m.css";', "text-ws-ascii": '\n @import "m.css";',
                        "text-escaped-ascii": '@i\\mport "m.css";'}[row["how"]])
        else:
            target.add(cssutils.css.CSSImportRule(href="m.css", parentStyleSheet=target))
    imp = [r for r in target.cssRules if r.type == r.IMPORT_RULE and r.href == "m.css"][0]
    child = imp.styleSheet
    probe = []
    for sr in child.cssRules:
        if sr.type == sr.STYLE_RULE:
            probe = [ord(c) for c in sr.style.getPropertyValue("content").strip('"')]
    if ascii_only and probe == [120]:
        probe = [PROBE[expnew]]          # the ASCII stand-in came back intact
    return {"out": "ok", "newfound": bool(imp.hrefFound), "newenc": child.encoding, "newprobe": probe}


def run_chain(row, want_sheet=False):
    exp, chain, root = row["exp"], row["chain"], row["root"]
    files = {}
    for i, n in enumerate(chain, 1):
        if n["fetch"] == "data":
            files["n%d.css" % i] = (None if n["http"] == "none" else n["http"], node_bytes(n, exp[i - 1], PROBE[exp[i - 1]], i, i == len(chain)))
        elif n["fetch"] == "none":
            files["n%d.css" % i] = None
        else:
            files["n%d.css" % i] = (None, None)
    log = []

    def fetcher(url):
        name = url.rsplit("/", 1)[-1]
        log.append(name)
        return files.get(name)

    upper = root["mark"].startswith("upper:")
    rootenc = root["override"] if root["override"] != "none" else (root["mark"][3:] if root["mark"] != "none" and not upper else "utf-8")
    head = '@charset "%s";\n' % root["mark"][3:] if root["mark"] != "none" and not upper else ('@CHARSET "%s";\n' % root["mark"][6:] if upper else "")
    text = head + '@import "n1.css";\nroot { left: 0 }\n'
    src = text if root["text"] else text.encode(rootenc)
    p = cssutils.CSSParser(fetcher=fetcher)
    sheet = p.parseString(src, encoding=None if root["override"] == "none" else root["override"], href="http://example.org/root.css")
    if want_sheet:
        return sheet, files
    levels, s = [], sheet
    for i, n in enumerate(chain, 1):
        imp = [r for r in s.cssRules if r.type == r.IMPORT_RULE] if s is not None else []
        if not imp:
            levels.append({"found": False, "enc": "none", "probe": []})
            s = None
            continue
        r = imp[0]
        child = r.styleSheet
        probe = []
        if child is not None:
            for sr in child.cssRules:
                if sr.type == sr.STYLE_RULE:
                    v = sr.style.getPropertyValue("content")
                    probe = [ord(c) for c in v.strip('"')]
        levels.append({"found": bool(r.hrefFound), "enc": child.encoding if child is not None else "none", "probe": probe})
        s = child
    out2, enc2 = outcome(lambda: cssutils.CSSParser(fetcher=lambda u: (None, "")).parseString(sheet.cssText).encoding)
    return {"out": "ok", "rootenc": sheet.encoding, "rootenc2": enc2 if out2 == "ok" else "#" + out2, "levels": levels, "fetchlog": log}


POS = {"class": ".x%s { left: 0 }", "string": 'a { content: "x%sy" }', "url": "a { background: url(x%s.png) }",
       "comment": "/* x%s */ a { left: 0 }", "value-ident": "a { font-family: x%s }"}


def extract(sheet, pos):
    for r in sheet.cssRules:
        if pos == "comment" and r.type == r.COMMENT:
            return r.cssText[4:-3]
        if r.type == r.STYLE_RULE:
            if pos == "class":
                return r.selectorText[2:]
            if pos == "string":
                return r.style.getPropertyValue("content")[2:-2]
            if pos == "url":
                return r.style.getProperty("background").propertyValue[0].uri[1:-4]
            if pos == "value-ident":
                return r.style.getPropertyValue("font-family")[1:]
    return "#notfound"


def run_escape(row):
    chars = "".join(("\\%x " % c) if 0xD800 <= c <= 0xDFFF else chr(c) for c in row["cps"])
    sheet = cssutils.parseString(POS[row["pos"]] % chars)
    sheet.encoding = row["target"]
    reported = sheet.encoding
    rule = sheet.cssRules[0].encoding if sheet.cssRules and sheet.cssRules[0].type == sheet.cssRules[0].CHARSET_RULE else "none"
    data = sheet.cssText
    try:
        txt = data.decode(reported)
        decodes = True
    except Exception:
        decodes, txt = False, ""
    back = [ord(c) for c in extract(cssutils.parseString(txt), row["pos"])] if decodes else []
    sheet.encoding = None
    return {"out": "ok", "reported": reported, "rule": rule, "decodes": decodes, "back": back, "afterreset": sheet.encoding}


def run_row(item):
    init()
    cssutils.log.raiseExceptions = True
    r = dict(item)
    rid = r.pop("id")
    try:
        o = run_chain(r) if r["kind"] == "chain" else (run_edit(r) if r["kind"] == "edit" else run_escape(r))
    except Exception as ex:
        o = {"out": "EXC:" + type(ex).__name__ + ":" + str(ex)[:80], "rootenc": "", "levels": [], "reported": "", "rule": "", "decodes": False,
             "back": [], "afterreset": "", "newfound": False, "newenc": "", "newprobe": []}
    return {"id": rid, "item": r, "init": {"x": 0}, "steps": [{"a": r, "out": o["out"], "post": o}]}
