"""Adapter for spec/NamespacesContract.tla <-> sheet.namespaces / @namespace rules / namespaced selectors (C15)."""
from .common import cssutils, init, outcome
import cssutils.css as css

FORM_TEXT = {"p|e": "p|e", "q|e": "q|e", "*|e": "*|e", "|e": "|e", "e": "e", "[p|a]": "[p|a]", "z|e": "z|e", ":not(p|e)": ":not(p|e)", ":not(e)": ":not(e)"}


def uri_name(u):
    if u is None:
        return "none"
    if u == cssutils._ANYNS:
        return "*any*"
    return u


def items_of(rule, form=None):
    out = []
    for sel in rule.selectorList:
        for it in sel.seq:
            if isinstance(it.value, tuple):
                u, name = it.value
                kind = "default" if (form in ("e", ":not(e)") or (form is None and "|" not in sel.selectorText)) else "explicit"
                out.append({"uri": uri_name(u), "local": name, "kind": kind})
    return out


def ns_pairs(sheet):
    return [[r.prefix, r.namespaceURI] for r in sheet.cssRules if r.type == r.NAMESPACE_RULE]


def mapping_of(sheet):
    return sorted([p, u] for p, u in dict(sheet.namespaces.items()).items())


class World:
    def __init__(self):
        self.sheet = css.CSSStyleSheet()
        self.comments = False
        self.tracked = []   # dicts: id, ver, obj, form

    def all_style_rules(self):
        out = []
        for r in self.sheet.cssRules:
            if r.type == r.STYLE_RULE:
                out.append(r)
            elif r.type == r.MEDIA_RULE:
                out.extend(c for c in r.cssRules if c.type == c.STYLE_RULE)
        return out

    def attached(self, obj):
        return any(r is obj for r in self.all_style_rules())

    def project(self):
        sheet = self.sheet
        att = [t for r in self.all_style_rules() for t in self.tracked if t["obj"] is r]
        det = [t for t in self.tracked if not self.attached(t["obj"])]
        sels = [{"id": t["id"], "ver": t["ver"], "where": "sheet", "items": items_of(t["obj"], t["form"]), "text": t["obj"].selectorText} for t in att]
        sels += [{"id": t["id"], "ver": t["ver"], "where": "detached", "items": items_of(t["obj"], t["form"]), "text": t["obj"].selectorText} for t in det]
        out, txt = outcome(lambda: sheet.cssText)
        rep = {"ok": out, "nsrules": [], "mapping": [], "sels": []}
        if out == "ok":
            def parse():
                s2 = cssutils.parseString(txt)
                return {"ok": "ok", "nsrules": ns_pairs(s2), "mapping": mapping_of(s2),
                        "sels": [items_of(r) for r in World.styles(s2)]}
            o2, r2 = outcome(parse)
            rep = r2 if o2 == "ok" else {"ok": o2, "nsrules": [], "mapping": [], "sels": []}
            cssutils.log.raiseExceptions = True
        return {"nsrules": ns_pairs(sheet), "mapping": mapping_of(sheet), "sels": sels, "reparse": rep,
                "text": txt.decode("utf-8", "replace") if out == "ok" else out}

    @staticmethod
    def styles(sheet):
        out = []
        for r in sheet.cssRules:
            if r.type == r.STYLE_RULE:
                out.append(r)
            elif r.type == r.MEDIA_RULE:
                out.extend(c for c in r.cssRules if c.type == c.STYLE_RULE)
        return out

    def nsrule(self, k):
        rs = [r for r in self.sheet.cssRules if r.type == r.NAMESPACE_RULE]
        return rs[k - 1] if 0 < k <= len(rs) else None

    def apply(self, a):
        s, op = self.sheet, a["op"]
        if op in ("addns", "insertns"):
            cm = "/*c*/ " if self.comments else ""       # variant: a comment between the keyword and the prefix
            txt = '@namespace %s%s "%s";' % (cm, a["p"], a["u"]) if a["p"] else '@namespace %s"%s";' % (cm, a["u"])
            x = txt if a.get("how", "text") == "text" else css.CSSNamespaceRule(namespaceURI=a["u"], prefix=a["p"])
            if op == "addns":
                return outcome(lambda: s.add(x))
            return outcome(lambda: s.insertRule(x, a["i"]))
        if op == "nsset":
            return outcome(lambda: s.namespaces.__setitem__(a["p"], a["u"]))
        if op == "nsdel":
            return outcome(lambda: s.namespaces.__delitem__(a["p"]))
        if op == "deletens":
            r = self.nsrule(a["k"])
            if r is None:
                return "IndexSizeErr", None
            return outcome(lambda: s.deleteRule(r))
        if op == "setprefix":
            r = self.nsrule(a["k"])
            if r is None:
                return "IndexSizeErr", None
            return outcome(lambda: setattr(r, "prefix", a["p"]))
        if op == "addsel":
            text = FORM_TEXT[a["form"]] + " { left: 0 }"
            if a["how"] == "rule":
                def f():
                    i = s.add(text)
                    return s.cssRules[i]
            elif a["how"] == "media":
                def f():
                    i = s.add("@media print { %s }" % text)
                    return s.cssRules[i].cssRules[0]
            elif a["how"] == "mediatext":
                # the nested rule is parsed while its @media rule already belongs to the sheet
                def f():
                    i = s.add("@media print { }")
                    try:
                        s.cssRules[i].cssText = "@media print { %s }" % text
                    except Exception:
                        s.deleteRule(i)
                        raise
                    return s.cssRules[i].cssRules[0]
            else:
                def f():
                    r = css.CSSStyleRule(selectorText=(FORM_TEXT[a["form"]], dict(s.namespaces.items())), style="left: 0")
                    s.add(r)
                    return r
            out, r = outcome(f)
            if out == "ok" and r is not None:
                self.tracked.append({"id": len(self.tracked) + 1, "ver": 0, "obj": r, "form": a["form"]})
            return out, None
        if op == "badtext":
            return outcome(lambda: setattr(s, "cssText", '@namespace zq "http://zq"; zc|e { left: 0 }'))[0], None
        if op == "setseltext":
            if a["j"] > len(self.tracked):
                return "IndexSizeErr", None
            t = self.tracked[a["j"] - 1]
            self.nset = getattr(self, "nset", 0) + 1
            pre = {"p|e": "p", "q|e": "q", "[p|a]": "p", ":not(p|e)": "p"}.get(a["form"])
            nsmap = dict(s.namespaces.items())
            if self.nset % 2 and pre in nsmap and self.attached(t["obj"]) and t["obj"].selectorList.length == 1:
                # the same selector as a ready-made Selector OBJECT that names the URI by a prefix of its own, assigned by index
                text = FORM_TEXT[a["form"]].replace(pre + "|", "zz|")
                def g():
                    t["obj"].selectorList[0] = css.Selector((text, {"zz": nsmap[pre]}))
                out, _ = outcome(g)
            else:
                out, _ = outcome(lambda: setattr(t["obj"], "selectorText", FORM_TEXT[a["form"]]))
            if out == "ok":
                t["ver"] += 1
                t["form"] = a["form"]
            return out, None
        if op in ("detach", "attach"):
            if a["j"] > len(self.tracked):
                return "IndexSizeErr", None
            t = self.tracked[a["j"] - 1]
            if op == "detach":
                if not self.attached(t["obj"]):
                    return "IndexSizeErr", None
                if t["obj"].parentRule is not None:
                    return outcome(lambda: t["obj"].parentRule.deleteRule(t["obj"]))
                return outcome(lambda: s.deleteRule(t["obj"]))
            if self.attached(t["obj"]):
                return "IndexSizeErr", None
            return outcome(lambda: s.add(t["obj"]))
        raise ValueError(op)


def run_trace(item):
    init()
    cssutils.ser.prefs.keepEmptyRules = True
    w = World()
    w.comments = bool(item.get("comments"))
    if item.get("head"):
        # variant: the sheet is not empty - rules that have nothing to do with namespaces precede whatever the history adds
        # (@namespace rules still have to end up before them)
        w.sheet.cssText = {"fontface": '@charset "utf-8"; @font-face { font-family: x } @page { margin: 0 }',
                           "comment": "/*c*/ @x y;", "variables": "@variables { c: red } @media print { }"}[item["head"]]
    tr = {"id": item["id"], "init": w.project(), "steps": []}
    for a in item["actions"]:
        out, _ = w.apply(a)
        tr["steps"].append({"a": a, "out": out, "post": w.project()})
    return tr


NS_TEXT = {"p": '@namespace p "%s";', "q": '@namespace q "%s";', "default": '@namespace "%s";'}


def run_parse_row(item):
    """a whole text in which an @namespace rule comes after a style rule, parsed the default (logging) way"""
    init()
    r = dict(item)
    rid = r.pop("id")
    use = FORM_TEXT[r["use"]] + " { top: 0 }"
    if r["where"] == "media":
        use = "@media print { %s }" % use
    text = (NS_TEXT[r["declared"]] % "u1" + "\n" if r["declared"] != "none" else "") + "z { left: 0 }\n" + NS_TEXT[r["late"]] % "u2" + "\n" + use
    o = {"out": "ok", "mapping": [], "present": False, "uri": "", "text": text}

    def f():
        sheet = cssutils.parseString(text)
        cssutils.log.raiseExceptions = True
        o["mapping"] = mapping_of(sheet)
        rules = [x for x in World.styles(sheet) if x.selectorText != "z"]
        o["present"] = bool(rules)
        if rules:
            its = items_of(rules[0], r["use"])
            o["uri"] = its[0]["uri"] if its else "#noitem"
    out, _ = outcome(f)
    cssutils.log.raiseExceptions = True
    o["out"] = out
    return {"id": rid, "item": r, "init": {"x": 0}, "steps": [{"a": r, "out": "ok", "post": o}]}


def run_dupes_row(item):
    """one URI declared three times in one text: the last declaration wins, one prefix per URI"""
    init()
    r = dict(item)
    rid = r.pop("id")
    decl = {"a": '@namespace a "u";', "b": '@namespace b "u";', "c": '@namespace c "u";', "d": '@namespace d "v";'}
    text = "\n".join(decl[x] for x in r["order"]) + "\nc|e, d|e { left: 0 }" if r["order"][-1] != "b" else "\n".join(decl[x] for x in r["order"]) + "\nd|e { left: 0 }"
    o = {"out": "ok", "mapping": [], "nsrules": [], "text": text}

    def f():
        sheet = cssutils.parseString(text)
        cssutils.log.raiseExceptions = True
        o["mapping"] = mapping_of(sheet)
        o["nsrules"] = ns_pairs(sheet)
    out, _ = outcome(f)
    cssutils.log.raiseExceptions = True
    o["out"] = out
    return {"id": rid, "item": r, "init": {"x": 0}, "steps": [{"a": r, "out": "ok", "post": o}]}


def run_table_row(item):
    return run_dupes_row(item) if item.get("kind") == "nsdupes" else run_parse_row(item)
