"""Shared by all adapters: they render abstract actions into API calls and project objects into
JSON-able abstract states.  They hold no expectations - verdicts come from the TLA+ contracts."""
import sys, logging, xml.dom

sys.path.insert(0, __import__("os").environ.get("VERIF_REPO", "/repo"))
import cssutils  # noqa: E402  (always the working tree under /repo)


def init():
    cssutils.log.setLevel(logging.FATAL)
    cssutils.log.raiseExceptions = True
    cssutils.ser.prefs.useDefaults()
    # every trace starts from the state a fresh process has (leakage between calls is C12's subject)
    import cssutils.prodparser as pp
    del pp.savedTokens[:]
    pp.tokenizer.clear()


def esc(s):
    """boundary convention: '~' stands for the CSS escape character in every abstract string"""
    return s.replace("\\", "~")


def unesc(s):
    return s.replace("~", "\\")


def outcome(fn):
    """-> (out, ret): 'ok' | DOM exception class name | 'EXC:<class>'"""
    try:
        return "ok", fn()
    except xml.dom.DOMException as e:
        return type(e).__name__, None
    except RecursionError:
        raise
    except Exception as e:
        return "EXC:" + type(e).__name__, None
