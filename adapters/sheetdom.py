"""Adapter for spec/SheetDOMContract.tla <-> cssutils.css.CSSStyleSheet and nested rule lists (C09, C11)."""
from .common import cssutils, init, outcome
import cssutils.css as css

KIND = {"CHARSET_RULE": "charset", "IMPORT_RULE": "import", "NAMESPACE_RULE": "namespace", "VARIABLES_RULE": "variables",
        "MEDIA_RULE": "media", "PAGE_RULE": "page", "FONT_FACE_RULE": "fontface", "STYLE_RULE": "style", "COMMENT": "comment",
        "UNKNOWN_RULE": "unknown", "MARGIN_RULE": "margin"}


def fetcher(url):
    return None, "/* imported */"


def text_of(r):
    k, d = r["k"], r.get("d", "")
    if k == "charset":
        return '@charset "%s";' % d
    if k == "import":
        return '@import "x.css";'
    if k == "namespace":
        p, u = d.split("=")
        return '@namespace %s "%s";' % (p, u) if p else '@namespace "%s";' % u
    if k == "variables":
        return "@variables { a: 1 }"
    if k == "media":
        return "@media print { %s }" % " ".join(kid_text(c) for c in r.get("kids", []))
    if k == "page":
        if r.get("kids"):
            return "@page { margin: 0; @top-left { color: red } @top-left { left: 0 } }"
        return "@page { margin: 0 }"
    if k == "fontface":
        return "@font-face { font-family: x }"
    if k == "style":
        return "a { left: 0 }"
    if k == "comment":
        return "/*c*/"
    if k == "unknown":
        return "@x y;"
    if k == "margin":
        return "@top-left { left: 0 }"
    raise ValueError(k)


def kid_text(c):
    return text_of({"k": c, "d": "utf-8" if c == "charset" else ("p=u1" if c == "namespace" else ""), "kids": []})


def object_of(r):
    k, d = r["k"], r.get("d", "")
    if k == "charset":
        return css.CSSCharsetRule(encoding=d)
    if k == "import":
        return css.CSSImportRule(href="x.css")
    if k == "namespace":
        p, u = d.split("=")
        return css.CSSNamespaceRule(namespaceURI=u, prefix=p)
    if k == "variables":
        return css.CSSVariablesRule(variables=css.CSSVariablesDeclaration(cssText="a: 1"))
    if k == "media":
        m = css.CSSMediaRule(mediaText="print")
        for c in r.get("kids", []):
            m.insertRule(kid_object(c))
        return m
    if k == "page":
        p = css.CSSPageRule(selectorText="", style="margin: 0")
        if r.get("kids"):
            p.cssText = text_of(r)
        return p
    if k == "fontface":
        return css.CSSFontFaceRule(style="font-family: x")
    if k == "style":
        return css.CSSStyleRule(selectorText="a", style="left: 0")
    if k == "comment":
        return css.CSSComment("/*c*/")
    if k == "unknown":
        return css.CSSUnknownRule("@x y;")
    if k == "margin":
        return css.MarginRule(margin="@top-left", style="left: 0")
    raise ValueError(k)


def kid_object(c):
    return object_of({"k": c, "d": "utf-8" if c == "charset" else ("p=u1" if c == "namespace" else ""), "kids": []})


def kind(r):
    return KIND.get(r.typeString, r.typeString)


def kids_of(r):
    return list(r.cssRules) if hasattr(r, "cssRules") else []


def abstract_rule(r):
    k = kind(r)
    d = ""
    if k == "namespace":
        d = "%s=%s" % (r.prefix, r.namespaceURI)
    elif k == "charset":
        d = r.encoding or ""
    return {"k": k, "d": d, "kids": [kind(c) for c in kids_of(r)]}


def parent_checks(sheet):
    out = []

    def style_checks(r, where):
        st = getattr(r, "style", None)
        if st is not None:
            out.append("ok" if st.parentRule is r else where + ".style.parentRule")
            for p in st.getProperties(all=True):
                out.append("ok" if p.parent is st else where + ".style.property.parent")
        ml = getattr(r, "media", None)
        if ml is not None and hasattr(ml, "parentRule"):
            out.append("ok" if ml.parentRule is r else where + ".media.parentRule")

    for i, r in enumerate(sheet.cssRules):
        w = "rule[%d:%s]" % (i, kind(r))
        out.append("ok" if r.parentStyleSheet is sheet else w + ".parentStyleSheet")
        out.append("ok" if r.parentRule is None else w + ".parentRule")
        style_checks(r, w)
        for j, c in enumerate(kids_of(r)):
            wc = "%s.kid[%d:%s]" % (w, j, kind(c))
            out.append("ok" if c.parentRule is r else wc + ".parentRule")
            out.append("ok" if c.parentStyleSheet is sheet else wc + ".parentStyleSheet")
            style_checks(c, wc)
    return out


class World:
    def __init__(self):
        self.sheet = css.CSSStyleSheet()
        self.sheet._setFetcher(fetcher)
        self.objs = []   # every rule object ever created by the adapter or seen in the sheet

    def remember(self, o):
        if all(o is not x for x in self.objs):
            self.objs.append(o)

    def reachable(self):
        r = []
        for x in self.sheet.cssRules:
            r.append(x)
            r.extend(kids_of(x))
        return r

    def project(self):
        sheet = self.sheet
        reach = self.reachable()
        for o in reach:
            self.remember(o)
        detached = []
        for o in self.objs:
            if all(o is not x for x in reach):
                ps, pr = o.parentStyleSheet, o.parentRule
                # an object outside the sheet may name no sheet, and no rule - except the (equally unreachable)
                # rule whose own list still holds it: the inside of a removed subtree stays intact
                inside_removed = pr is not None and all(pr is not x for x in reach) and any(o is c for c in kids_of(pr))
                if ps is sheet:
                    detached.append("%s names the sheet" % kind(o))
                elif pr is not None and not inside_removed:
                    detached.append("%s names a rule" % kind(o))
                else:
                    detached.append("none")
        out, txt = outcome(lambda: sheet.cssText)
        if out == "ok":
            out2, rs = outcome(lambda: [kind(r) for r in cssutils.CSSParser(fetcher=fetcher).parseString(txt).cssRules])
            rep = rs if out2 == "ok" else ["#reparse:" + out2]
        else:
            rep = ["#serialize:" + out]
        cssutils.log.raiseExceptions = True
        return {"rules": [abstract_rule(r) for r in sheet.cssRules], "parents": parent_checks(sheet), "detached": detached,
                "reparsed": rep, "encoding": sheet.encoding}

    def make(self, r, how):
        if getattr(self, "nsuse", False) and r["k"] == "style" and "p" in self.sheet.namespaces:
            # variant: style rules USE the namespace bound to prefix p whenever there is one - deleting or re-binding that
            # declaration afterwards is then refused, and a refusal must leave everything as it was
            if how == "text":
                return "p|a, a { left: 0 }"
            o = css.CSSStyleRule(selectorText=("p|a, a", dict(self.sheet.namespaces.items())), style="left: 0")
            self.remember(o)
            return o
        if how == "text":
            return text_of(r)
        o = object_of(r)
        self.remember(o)
        for c in kids_of(o):
            self.remember(c)
        return o

    def apply(self, a):
        s, op = self.sheet, a["op"]
        if op == "insert":
            x = self.make(a["r"], a["how"])
            return outcome(lambda: s.insertRule(x, a["i"]))
        if op == "add":
            x = self.make(a["r"], a["how"])
            return outcome(lambda: s.add(x))
        if op == "delete":
            # the same rule named in the three documented ways: index, index from the end, the rule object
            n, i = len(s.cssRules), a["i"]
            self.ndel = getattr(self, "ndel", 0) + 1
            if i < n and self.ndel % 3 == 1:
                return outcome(lambda: s.deleteRule(i - n))
            if i < n and self.ndel % 3 == 2:
                obj = s.cssRules[i]
                return outcome(lambda: s.deleteRule(obj))
            return outcome(lambda: s.deleteRule(i))
        if op == "settext":
            if "text" in a:
                return outcome(lambda: setattr(s, "cssText", a["text"]))
            return outcome(lambda: setattr(s, "cssText", "\n".join(text_of(r) for r in a["rules"])))
        if op == "setenc":
            return outcome(lambda: setattr(s, "encoding", None if a["e"] == "none" else a["e"]))
        if op == "styleset":
            if a["j"] >= len(s.cssRules) or not hasattr(s.cssRules[a["j"]], "style"):
                return "IndexSizeErr", None
            st = s.cssRules[a["j"]].style
            if a["how"] == "name":
                return outcome(lambda: st.setProperty("top", "1px"))
            if a["how"] == "object":
                return outcome(lambda: st.setProperty(css.Property("top", "2px")))
            other = css.CSSStyleDeclaration(cssText="bottom: 3px")
            return outcome(lambda: st.setProperty(other.getProperties(all=True)[0]))
        if op == "kidinsertlist":
            if a["j"] >= len(s.cssRules):
                return "IndexSizeErr", None
            cont = s.cssRules[a["j"]]
            rl = css.CSSRuleList()
            for c in a["cs"]:
                o = kid_object(c)
                self.remember(o)
                list.append(rl, o)      # (a detached rule list has no append of its own)
            return outcome(lambda: cont.insertRule(rl, 0))
        if op in ("kidinsert", "kidadd", "kiddelete"):
            if a["j"] >= len(s.cssRules):
                return "IndexSizeErr", None
            cont = s.cssRules[a["j"]]
            if op == "kiddelete":
                nk, i = len(getattr(cont, "cssRules", ())), a["i"]
                self.ndel = getattr(self, "ndel", 0) + 1
                if i < nk and self.ndel % 3 == 1:
                    return outcome(lambda: cont.deleteRule(i - nk))
                if i < nk and self.ndel % 3 == 2:
                    obj = cont.cssRules[i]
                    return outcome(lambda: cont.deleteRule(obj))
                return outcome(lambda: cont.deleteRule(i))
            how = "text" if (a["j"] + a.get("i", 0)) % 2 == 0 else "object"
            x = kid_text(a["c"]) if how == "text" else kid_object(a["c"])
            if how == "object":
                self.remember(x)
            if op == "kidinsert":
                return outcome(lambda: cont.insertRule(x, a["i"]))
            return outcome(lambda: cont.add(x))
        raise ValueError(op)


def run_trace(item):
    init()
    cssutils.ser.prefs.keepEmptyRules = True
    cssutils.ser.prefs.resolveVariables = False      # (with the default an @variables rule is - as documented - not written at all)
    w = World()
    w.nsuse = bool(item.get("nsuse"))
    tr = {"id": item["id"], "init": w.project(), "steps": []}
    actions = list(item["actions"])
    if item.get("reparse") and actions:
        # variant: before the last action the sheet is assigned its own content again, so that every rule object is one that
        # was parsed while attached (the abstract state is the same; where an object comes from must not matter)
        actions.insert(len(actions) - 1, {"op": "settext", "rules": "#current"})
    for n, a in enumerate(actions):
        if w.nsuse and n == len(actions) - 1 and "p" in w.sheet.namespaces:
            # whatever order the rules were created in: before the last action every style rule is made to use prefix p
            for r in list(w.sheet.cssRules) + [c for m in w.sheet.cssRules if m.type == m.MEDIA_RULE for c in m.cssRules]:
                if r.type == r.STYLE_RULE and "|" not in r.selectorText:
                    outcome(lambda r=r: setattr(r, "selectorText", "p|a, a"))
        if a.get("rules") == "#current":
            cur = [abstract_rule(r) for r in w.sheet.cssRules]
            out0, txt = outcome(lambda: w.sheet.cssText.decode("utf-8"))
            out1, again = outcome(lambda: [abstract_rule(r) for r in cssutils.CSSParser(fetcher=fetcher).parseString(txt).cssRules]) if out0 == "ok" else ("x", None)
            cssutils.log.raiseExceptions = True
            if out1 != "ok" or again != cur:
                continue        # the sheet's own text does not denote its rules (judged elsewhere): no reparse step here
            a = {"op": "settext", "rules": cur, "text": txt}
        out, ret = w.apply(a)
        tr["steps"].append({"a": a, "out": out, "post": w.project()})
    return tr
