"""Adapter for spec/CodecContract.tla <-> cssutils.codec (C07)."""
import sys, codecs, io
sys.path.insert(0, __import__("os").environ.get("VERIF_REPO", "/repo"))
import cssutils.codec as cc  # noqa: E402  (registers the 'css' codec)

BYTE = {"EF": [0xEF], "BB": [0xBB], "BF": [0xBF], "FF": [0xFF], "FE": [0xFE], "00": [0x00], "@": [0x40], "c": [0x63], "h": [0x68],
        "a": [0x61], "x": [0x78, 0x7B, 0x20, 0x43], "H": [0x80, 0xC3, 0xE9]}
BODY = {"empty": "", "ascii": "a { left: 0 }", "latin1": "a { content: \"éü\" }", "cyrillic": "a { content: \"яж\" }",
        "bmp": "a { content: \"中€\" }", "astral": "a { content: \"\U0001F600\" }"}
OTHER = {"utf-8": "koi8-r"}


def ans(t):
    enc, explicit = t
    # encoding names are case-insensitive: compared in lower case
    return {"enc": "none" if enc is None else enc.lower(), "explicit": bool(explicit)}


def run_row(item):
    r = dict(item)
    rid = r.pop("id")
    k = r["kind"]
    o = {}
    if k == "detect":
        data = bytes(BYTE[c][(rid + i) % len(BYTE[c])] for i, c in enumerate(r["bs"]))
        o = ans(cc.detectencoding_str(data, r["final"]))
        r["bytes"] = list(data)
    elif k == "charset":
        text = '@charset "%s";\na { left: 0 }' % (r["name"].upper() if rid % 2 else r["name"])      # the name in either letter case
        cut = text[:r["cut"]]
        if r["unicode"]:
            o = ans(cc.detectencoding_unicode(cut, r["final"]))
        else:
            o = ans(cc.detectencoding_str(cut.encode("ascii"), r["final"]))
    elif k == "roundtrip":
        o = roundtrip(r, rid)
        if o is None:
            return {"id": rid, "skip": True}
    elif k == "chunk":
        o = chunk(r, rid)
        if o is None:
            return {"id": rid, "skip": True}
    return {"id": rid, "item": r, "init": {"x": 0}, "steps": [{"a": r, "out": o.get("out", "ok"), "post": o}]}


def split_text(t):
    """-> (charset name or 'none', body id)"""
    cs, body = "none", t
    if t.startswith('@charset "'):
        end = t.find('"', 10)
        if end > 0 and t[end:end + 3] == '";\n':
            cs, body = t[10:end], t[end + 3:]
    for k, v in BODY.items():
        if v == body:
            return cs, k
    return cs, "unknown:" + body[:20]


def roundtrip(r, rid=0):
    e, body = r["enc"], BODY[r["body"]]
    E = e.upper() if rid % 2 else e          # the encoding named in either letter case
    name = {"none": None, "same": e, "other": OTHER.get(e, "utf-8"), "empty": ""}[r["cs"]]
    text = ('@charset "%s";\n' % name if name is not None else "") + body
    try:
        text.encode(e)
    except UnicodeEncodeError:
        return None          # the encoding cannot represent the text: outside the quantifier
    bomfamily = e in ("utf-8-sig", "utf-16", "utf-32")
    if r["mode"] == "auto" and not (bomfamily or name):
        return None          # nothing in the bytes says which encoding: auto-detection is not promised
    if r["mode"] == "auto" and not bomfamily and e in ("utf-16-le", "utf-16-be", "utf-32-le", "utf-32-be") and not name:
        return None
    try:
        data = cc.encode(text, encoding=E)[0]
        if r["mode"] == "given":
            back = cc.decode(data, encoding=E)[0]
        elif r["mode"] == "given-noforce":
            back = cc.decode(data, encoding=E, force=False)[0]
        else:
            back = cc.decode(data)[0]
        cs, b = split_text(back)
        cs = cs.lower()
        if r["mode"] == "auto" and not bomfamily and e not in ("utf-16-le", "utf-16-be", "utf-32-le", "utf-32-be"):
            pass
        return {"out": "ok", "cs": cs, "body": b}
    except Exception as ex:
        return {"out": "EXC:" + type(ex).__name__, "cs": "", "body": ""}


def chunk_text(r):
    e = r["enc"]
    t = r["text"]
    if e == "iso-2022-jp":
        body = "a { left: 0 } /* \u65e5\u672c\u8a9e"      # ends in the shifted state: the final flush returns to ASCII
        return body if t == "plain" else ('@charset "%s";\n%s' % (e, body) if t == "rule" else ('@charset "%s' % e if t == "rulecut" else ""))
    body = "a { content: \"é\" } b { left: 0 }" if e in ("iso-8859-1", "cp1252") else (
        "a { content: \"я\" } b { left: 0 }" if e == "koi8-r" else "a { content: \"é中\U0001F600\" } b { left: 0 }")
    if t == "plain":
        return body
    if t == "rule":
        return '@charset "%s";\n%s' % (e, body)
    if t == "rule-other":
        return '@charset "%s";\n%s' % ("koi8-r" if e != "koi8-r" else "iso-8859-1", "a { left: 0 } b { top: 0 }")     # ASCII body: decodable either way
    if t == "rulecut":
        return '@charset "%s' % e      # the input ends inside the rule
    return ""


def pieces(seq, cuts, every):
    if every:
        return [seq[i:i + 1] for i in range(len(seq))]
    out, prev = [], 0
    for c in cuts:
        if c < len(seq):
            out.append(seq[prev:c])
            prev = c
    out.append(seq[prev:])
    return out


def chunk(r, rid=0):
    e, cls = r["enc"], r["cls"]
    text = chunk_text(r)
    noforce = cls.endswith("-noforce")
    if noforce:
        cls = cls[:-len("-noforce")]
        if not (e in ("utf-8-sig", "utf-16", "utf-32") or r["text"] == "rule"):
            return None      # nothing explicit in the bytes: the given encoding decides (covered by the round-trip rows)
    given = e if not noforce else ("koi8-r" if e == "iso-8859-1" else "iso-8859-1")
    kw = {"force": False} if noforce else {}
    auto = cls.endswith("-auto")
    if auto:
        cls = cls[:-len("-auto")]
        kw = None
    try:
        if cls in ("incdec", "reader"):
            if auto:
                # the plain bytes of the text in that encoding (python's codec: a BOM only where the encoding's name implies one)
                try:
                    data = text.encode(e)
                except UnicodeEncodeError:
                    return None
            else:
                data = cc.encode(text, encoding=e)[0]
            try:
                oneshot = cc.decode(data)[0] if auto else cc.decode(data, encoding=given, **kw)[0]
            except Exception:
                return {"out": "ok", "oneshot": [], "concat": [], "oneshot_error": True}
            ps = pieces(data, r["cuts"], r["every"])
            if cls == "incdec":
                d = codecs.getincrementaldecoder("css")() if auto else codecs.getincrementaldecoder("css")(encoding=given, **kw)
                if rid % 2 and ps:
                    # the last piece of data is handed over together with the end-of-input flag
                    out = "".join(d.decode(p, False) for p in ps[:-1]) + d.decode(ps[-1], True)
                else:
                    out = "".join(d.decode(p, False) for p in ps) + d.decode(b"", True)
            else:
                class Feeder(io.RawIOBase):      # a stream that hands out exactly the scheduled chunks
                    def __init__(self, ps):
                        self.ps = list(ps)

                    def read(self, size=-1):
                        return self.ps.pop(0) if self.ps else b""

                    def readable(self):
                        return True
                rd = codecs.getreader("css")(Feeder(ps)) if auto else codecs.getreader("css")(Feeder(ps), encoding=given, **kw)
                out, n = "", 0
                while True:
                    s = rd.read()
                    out += s
                    n += 1
                    if not s and not rd.stream.ps:
                        break
                    if n > 10 * len(ps) + 20:
                        return {"out": "EXC:NoProgress", "oneshot": list(map(ord, oneshot)), "concat": list(map(ord, out)), "oneshot_error": False}
            return {"out": "ok", "oneshot": list(map(ord, oneshot)), "concat": list(map(ord, out)), "oneshot_error": False}
        else:
            try:
                oneshot = cc.encode(text)[0] if auto else cc.encode(text, encoding=e)[0]
            except Exception:
                return {"out": "ok", "oneshot": [], "concat": [], "oneshot_error": True}
            ps = pieces(text, r["cuts"], r["every"])
            if cls == "incenc":
                en = codecs.getincrementalencoder("css")() if auto else codecs.getincrementalencoder("css")(encoding=e)
                if rid % 2 and ps:
                    out = b"".join((en.encode(p, False) or b"") for p in ps[:-1]) + (en.encode(ps[-1], True) or b"")
                else:
                    out = b"".join((en.encode(p, False) or b"") for p in ps) + (en.encode("", True) or b"")
            else:
                buf = io.BytesIO()
                w = codecs.getwriter("css")(buf) if auto else codecs.getwriter("css")(buf, encoding=e)
                for p in ps:
                    w.write(p)
                out = buf.getvalue()
                if r["text"] == "empty":
                    return None      # a stream writer that is never given data writes nothing (not even a BOM)
            return {"out": "ok", "oneshot": list(oneshot), "concat": list(out), "oneshot_error": False}
    except Exception as ex:
        return {"out": "EXC:" + type(ex).__name__, "oneshot": [], "concat": [], "oneshot_error": False}
