"""Adapter for spec/ImportsContract.tla (C19): build the virtual file system of a TLC-generated world, parse the root with a
logging fetcher, run getUrls / replaceUrls / resolveImports / csscombine, and project what comes out back to abstract
statements with structured URL references.  Verdicts (RFC 3986 resolution, meaning, wrapping rules) are TLC's."""
import os, re, shutil, hashlib, logging, urllib.parse
from .common import cssutils, init as common_init, outcome
import cssutils.script

# (the same URL-bearing property twice with another one in between: the fallback idiom)
PROPS = ["background-image", "cursor", "background-image", "list-style-image", "x-a", "x-b"]


# ---- references <-> strings -------------------------------------------------------------------------------------------------
def ref_text(r):
    s = ""
    if r["scheme"]:
        s += r["scheme"] + ":"
    if r["host"]:
        s += "//" + r["host"]
    path = "/".join(r["segs"])
    if r["rooted"]:
        path = "/" + path
    s += path
    if r["query"]:
        s += "?" + r["query"]
    if r["frag"]:
        s += "#" + r["frag"]
    return s


def parse_ref(u):
    sp = urllib.parse.urlsplit(u)
    path = sp.path
    rooted = path.startswith("/")
    segs = [x for x in path.split("/")]
    if rooted:
        segs = segs[1:]
    return {"scheme": sp.scheme, "host": sp.netloc, "rooted": rooted or bool(sp.netloc), "segs": segs, "query": sp.query, "frag": sp.fragment}


def abs_text(a):
    return "%s://%s/%s" % (a["scheme"], a["host"], "/".join(a["path"]))


def parse_abs(u):
    sp = urllib.parse.urlsplit(u)
    return {"scheme": sp.scheme, "host": sp.netloc, "path": [x for x in sp.path.split("/")][1:]}


# ---- statements -> CSS text ---------------------------------------------------------------------------------------------------
def decls(urls, quote):
    out = []
    if quote % 3 == 1 and len(urls) >= 2:
        # every url() of the block as an argument of a function: a url() value all the same
        inner = ", ".join('url("%s") %dx' % (ref_text(r), i + 1) for i, r in enumerate(urls[:-1]))
        # ... one of them two function levels deep
        return "background-image: cross-fade(image-set(%s), url(%s))" % (inner, ref_text(urls[-1]))
    for i, r in enumerate(urls):
        u = ref_text(r)
        form = ['url(%s)', 'url("%s")', "url('%s')"][(i + quote) % 3]
        out.append("%s: %s" % (PROPS[i % len(PROPS)], form % u))
    return "; ".join(out)


def stmt_text(s, v):
    k = s["k"]
    if k == "import":
        u = ref_text(s["ref"])
        href = ('"%s"' % u) if v % 2 == 0 else "url(%s)" % u
        return "@import %s%s;" % (href, (" " + s["media"]) if s["media"] else "")
    if k == "style":
        return "%s { %s }" % (s["sel"], decls(s["urls"], v) or "left: 0")
    if k == "fontface":
        return "@font-face { font-family: x; src: %s }" % ", ".join("url(%s)" % ref_text(r) for r in s["urls"])
    if k == "page":
        own, margin = s["urls"][:1], s["urls"][1:]
        t = "@page { %s" % (decls(own, v) or "margin: 1cm")
        if margin:
            t += "; @top-left { %s }" % decls(margin, v + 1)
        return t + " }"
    if k == "namespace":
        return '@namespace nsp "http://ns/";'
    if k == "unknown":
        return "@layer reset, theme;"
    if k == "media":
        return "@media %s { %s }" % (s["media"], " ".join(stmt_text(x, v) for x in s["rules"]))
    raise ValueError(k)


def file_text(stmts, v, charset=None):
    t = "\n".join(stmt_text(s, v) for s in stmts)
    if charset:
        t = '@charset "%s";\n' % charset + t
    return t


# ---- DOM -> statements --------------------------------------------------------------------------------------------------------
def value_urls(val):
    """the url() values in a value component: itself, or the ones among the arguments of a function (own walk of the public item
    sequence - not cssutils.getUrls, which is under test)"""
    if val.type == "URI":
        return [val]
    out = []
    for it in getattr(val, "seq", []):
        if hasattr(it.value, "type") and hasattr(it.value, "cssText") and it.value is not val:
            out += value_urls(it.value)
    return out


def style_urls(style):
    return [parse_ref(u.uri) for p in style.getProperties(all=True) for val in p.propertyValue for u in value_urls(val)]


def project_rules(rules):
    out = []
    for r in rules:
        t = r.typeString
        if t == "STYLE_RULE":
            out.append({"k": "style", "sel": r.selectorText, "urls": style_urls(r.style)})
        elif t == "IMPORT_RULE":
            m = r.media.mediaText
            out.append({"k": "import", "ref": parse_ref(r.href), "media": "" if m == "all" else m})
        elif t == "MEDIA_RULE":
            out.append({"k": "media", "media": r.media.mediaText, "rules": project_rules(r.cssRules)})
        elif t == "FONT_FACE_RULE":
            out.append({"k": "fontface", "sel": "@font-face", "urls": style_urls(r.style)})
        elif t == "PAGE_RULE":
            urls = style_urls(r.style)
            for m in r.cssRules:
                urls += style_urls(m.style)
            out.append({"k": "page", "sel": "@page", "urls": urls})
        elif t == "NAMESPACE_RULE":
            out.append({"k": "namespace", "sel": "@namespace", "urls": []})
        elif t in ("COMMENT", "CHARSET_RULE"):
            continue
        elif t == "UNKNOWN_RULE":
            out.append({"k": "unknown", "sel": r.atkeyword, "urls": []})
        else:
            out.append({"k": "other:" + t, "sel": "", "urls": []})
    return out


def masked(sheet):
    """the sheet with every URL blanked: what replaceUrls must leave alone"""
    txt = sheet.cssText.decode("utf-8")
    txt = re.sub(r'url\([^)]*\)', "url()", txt)
    txt = re.sub(r'@import\s+"[^"]*"', '@import ""', txt)
    return hashlib.sha1(txt.encode()).hexdigest()[:16]


# ---- the virtual file system ---------------------------------------------------------------------------------------------------
class VFS:
    def __init__(self, world, v, avail=None, charset=None):
        self.files = {}
        for fid, f in world["files"].items():
            if avail is None or fid in avail:
                self.files[abs_text(f["loc"])] = file_text(f["stmts"], v + len(fid), charset if fid != world["root"] else None)
        self.log = []
        self.charset = charset

    def fetch(self, url):
        self.log.append(url)
        key = url.split("?")[0].split("#")[0]
        if key not in self.files:
            return None
        if self.charset:
            return None, self.files[key].encode(self.charset)
        return None, self.files[key]


def init():
    common_init()


def parse_root(world, v, charset=None):
    vfs = VFS(world, v, charset=charset)
    root = world["files"][world["root"]]
    text = file_text(root["stmts"], v)
    p = cssutils.CSSParser(fetcher=vfs.fetch)
    sheet = p.parseString(text, href=abs_text(root["loc"]))
    cssutils.log.raiseExceptions = True
    return vfs, sheet, text


def url_half(world, fid, v):
    """getUrls / replaceUrls on the sheet of one file of the world (parsed with its imports loaded)"""
    w = dict(world, root=fid)
    o = {"kind": "urls", "file": fid, "out": "ok", "urls": [], "replaced": [], "after": [], "rest_before": "", "rest_after": "", "identity_noop": False}

    def f():
        vfs, sheet, text = parse_root(w, v)
        o["urls"] = [parse_ref(u) for u in cssutils.getUrls(sheet)]
        before = sheet.cssText
        cssutils.replaceUrls(sheet, lambda u: u)
        o["identity_noop"] = sheet.cssText == before
        o["rest_before"] = masked(sheet)
        calls = []

        def tag(u):
            calls.append(u)
            return "tok%d" % len(calls)
        cssutils.replaceUrls(sheet, tag)
        o["replaced"] = [parse_ref(u) for u in calls]
        o["after"] = [int(u[3:]) if re.match(r"^tok\d+$", u) else 0 for u in cssutils.getUrls(sheet)]
        o["rest_after"] = masked(sheet)
    out, _ = outcome(f)
    o["out"] = out
    return o


def flat_half(world, v, mode):
    """resolveImports on the parsed root (mode 'dom' / 'text' / 'minified'), or csscombine on real files (mode 'combine-*')"""
    o = {"kind": "flat", "mode": mode, "out": "ok", "flat": [], "fetched": [], "refetched": [], "text": "", "skipfetch": False}
    root = world["files"][world["root"]]

    def f():
        charset = "iso-8859-1" if mode == "latin1" else None
        vfs, sheet, text = parse_root(world, v, charset=charset)
        n = len(vfs.log)
        o["fetched"] = [parse_abs(u) for u in vfs.log]
        flat = cssutils.resolveImports(sheet)
        o["refetched"] = [parse_abs(u) for u in vfs.log[n:]]
        if mode == "dom":
            o["flat"] = project_rules(flat.cssRules)
            o["text"] = flat.cssText.decode("utf-8")[:1500]
            return
        if mode == "minified":
            cssutils.ser.prefs.useMinified()
        out = flat.cssText
        cssutils.ser.prefs.useDefaults()
        o["text"] = out.decode("utf-8")[:1500]
        again = cssutils.CSSParser(fetcher=lambda u: None).parseString(out, href=abs_text(root["loc"]))
        cssutils.log.raiseExceptions = True
        o["flat"] = project_rules(again.cssRules)
    out, _ = outcome(f)
    cssutils.ser.prefs.useDefaults()
    cssutils.log.raiseExceptions = True
    o["out"] = out
    return o


def combine(world, v, rid, minify, enc, work):
    """cssutils.script.csscombine on real files: only the files of the root's host below the scratch root can be reached"""
    o = {"kind": "flat", "mode": "csscombine", "out": "ok", "flat": [], "fetched": [], "refetched": [], "text": "", "skipfetch": True}
    root = world["files"][world["root"]]
    base = os.path.join(work, "fs", str(rid))
    shutil.rmtree(base, ignore_errors=True)
    avail = []
    try:
        for fid, fl in world["files"].items():
            if fl["loc"]["host"] != root["loc"]["host"]:
                continue
            avail.append(fid)
            path = os.path.join(base, *fl["loc"]["path"])
            os.makedirs(os.path.dirname(path), exist_ok=True)
            with open(path, "w", encoding="utf-8") as fh:
                fh.write(file_text(fl["stmts"], v + len(fid)))
        rootpath = os.path.join(base, *root["loc"]["path"])

        def f():
            out = cssutils.script.csscombine(path=rootpath, minify=minify, targetencoding=enc)
            text = out.decode(enc or "utf-8")
            o["text"] = text[:1500]
            again = cssutils.CSSParser(fetcher=lambda u: None).parseString(text, href="file://" + rootpath)
            cssutils.log.raiseExceptions = True
            o["flat"] = project_rules(again.cssRules)
            o["charset"] = again.cssRules[0].encoding if len(again.cssRules) and again.cssRules[0].typeString == "CHARSET_RULE" else ""
        out, _ = outcome(f)
        o["out"] = out
    finally:
        shutil.rmtree(base, ignore_errors=True)
        cssutils.ser.prefs.useDefaults()
        cssutils.log.raiseExceptions = True
    return o, avail


MODES = ["dom", "text", "minified", "latin1"]


def run_row(item):
    init()
    r = dict(item)
    rid = r.pop("id")
    world = r["world"]
    v = rid % 6
    steps = []
    a = {"kind": "world", "world": world}
    fids = sorted(world["files"])
    u = url_half(world, fids[rid % len(fids)], v)
    steps.append({"a": dict(a, what="urls:" + u["file"]), "out": "ok", "post": u})
    fl = flat_half(world, v, MODES[rid % len(MODES)])
    steps.append({"a": dict(a, what="flat:" + fl["mode"]), "out": "ok", "post": fl})
    return {"id": rid, "item": {"nedges": r.get("nedges"), "root": file_text(world["files"][world["root"]]["stmts"], v)[:400]}, "init": {"x": 0}, "steps": steps}


def run_combine(item):
    init()
    r = dict(item)
    rid = r.pop("id")
    world = r["world"]
    if any(fl["loc"]["path"] and fl["loc"]["path"][-1] == "" for fl in world["files"].values()):
        return {"id": rid, "skip": True}          # a directory URL is not a file csscombine could read
    v = rid % 6
    minify = bool(rid % 2)
    enc = [None, "utf-8", "ascii", "iso-8859-1"][(rid // 2) % 4]
    o, avail = combine(world, v, rid, minify, enc, r["work"])
    # the world as csscombine sees it: the root host's files live below file:///<scratch>/, nothing else can be fetched
    base = [x for x in os.path.join(r["work"], "fs", str(rid)).split("/") if x]
    host = world["files"][world["root"]]["loc"]["host"]
    files = {}
    for fid, fl in world["files"].items():
        loc = fl["loc"]
        if loc["host"] == host:
            loc = dict(loc, scheme="file", host="", path=base + loc["path"])
        files[fid] = dict(fl, loc=loc)
    w = dict(world, files=files, avail=avail)
    # csscombine parses by itself: the fetch log is not observable (skipfetch)
    a = {"kind": "world", "world": w, "what": "csscombine minify=%s enc=%s" % (minify, enc)}
    return {"id": rid, "item": {"nedges": r.get("nedges"), "root": file_text(world["files"][world["root"]]["stmts"], v)[:400]}, "init": {"x": 0},
            "steps": [{"a": a, "out": "ok", "post": o}]}
