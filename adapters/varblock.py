"""Adapter for spec/VarBlockContract.tla <-> cssutils.css.CSSVariablesDeclaration (C10, second half)."""
from .common import cssutils, init, esc, unesc, outcome  # noqa: F401
from cssutils.css import CSSVariablesDeclaration

PROBES = ["x", "X", "~x", "y", "Y", "zz", "q"]
COMMENTS = [False]      # variant: a comment before every variable of a text assignment


def value_text(v):
    return "}" if v == "#bad" else v


def pairs(vd):
    return [{"name": k, "value": vd.getVariableValue(k)} for k in vd.keys()]


def reparsed(txt):
    out, vd2 = outcome(lambda: CSSVariablesDeclaration(cssText=txt))
    return pairs(vd2) if out == "ok" else [{"name": "#unparsable", "value": out}]


def project(vd):
    n = vd.length
    txt = vd.cssText
    return {
        "list": pairs(vd), "length": n, "keys": list(vd.keys()), "items": [vd.item(i) for i in range(n)],
        "iter": list(iter(vd)),
        "probes": [{"q": q, "has": unesc(q) in vd, "value": vd.getVariableValue(unesc(q))} for q in PROBES],
        "reparsed": reparsed(txt), "text": txt,
    }


def apply(vd, a):
    op = a["op"]
    if op == "setvar":
        return outcome(lambda: vd.setVariable(unesc(a["lit"]), value_text(a["value"])))
    if op == "setitem":
        return outcome(lambda: vd.__setitem__(unesc(a["lit"]), value_text(a["value"])))
    if op == "removevar":
        return outcome(lambda: vd.removeVariable(unesc(a["lit"])))
    if op == "delitem":
        return outcome(lambda: vd.__delitem__(unesc(a["lit"])))
    if op == "settext":
        pre = "/*c*/ " if COMMENTS[0] else ""
        return outcome(lambda: setattr(vd, "cssText", "; ".join(pre + "%s: %s" % (unesc(d["lit"]), value_text(d["value"])) for d in a["decls"])))
    raise ValueError(op)


def run_trace(item):
    init()
    COMMENTS[0] = bool(item.get("comments"))
    vd = CSSVariablesDeclaration()
    tr = {"id": item["id"], "init": project(vd), "steps": []}
    for a in item["actions"]:
        out, ret = apply(vd, a)
        tr["steps"].append({"a": a, "out": out, "ret": ret if isinstance(ret, str) else "", "post": project(vd)})
    return tr
