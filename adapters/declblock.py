"""Adapter for spec/DeclBlockContract.tla  <->  cssutils.css.CSSStyleDeclaration (C10, C11)."""
from .common import cssutils, init, esc, unesc, outcome  # noqa: F401
from cssutils.css import CSSStyleDeclaration
import cssutils.css as css

BAD_VALUE, BAD_PRIO = "#bad", "#badprio"
PROBES = ["color", "COLOR", "c~olor", "left", "lef~t", "top"]
COMMENTS = [False]
ASOBJ = [False]     # variant: set/add hand a constructed Property OBJECT to setProperty instead of name, value, priority


def value_text(v):
    return "}" if v == BAD_VALUE else v


def prio_text(p):
    return "!imp" if p == BAD_PRIO else p


def domname(n):
    parts = n.split("-")
    return parts[0] + "".join(x.capitalize() for x in parts[1:])


def entries(style):
    return [{"name": p.name, "value": p.value, "prio": p.priority} for p in style.getProperties(all=True)]


def project(style):
    n = style.length
    probes = []
    for q in PROBES:
        u = unesc(q)
        d = {"q": q, "has": u in style, "value": style.getPropertyValue(u), "prio": style.getPropertyPriority(u)}
        # membership asked with a Property OBJECT of that (literal) name, and with the block's own property object
        try:
            d["hasobj"] = css.Property(u, "1px") in style
        except Exception as e:
            d["hasobj"] = "EXC:" + type(e).__name__
        own = style.getProperty(u)
        d["hasown"] = True if own is None else (own in style)
        d["attr"] = getattr(style, domname(q)) if q.islower() and "~" not in q else d["value"]
        probes.append(d)
    return {
        "list": entries(style),
        "length": n,
        "keys": list(style.keys()),
        "items": [style.item(i) for i in range(n)],
        "itemPast": style.item(n),
        "itemsNeg": [style.item(-i) for i in range(1, n + 1)],      # "negative values behave like negative indexes on Python lists"
        "itemBefore": style.item(-n - 1),
        "iter": [p.name for p in style],
        "probes": probes,
        "effective": [{"name": p.name, "value": p.value, "prio": p.priority} for p in style.getProperties()],
        "reparsed": entries(CSSStyleDeclaration(cssText=style.cssText)),
        "text": style.cssText,
    }


def decl_text(d):
    t = "%s: %s" % (unesc(d["lit"]), value_text(d["value"]))
    return t + (" " + prio_text(d["prio"]) if d["prio"] else "")


def apply(style, a):
    op = a["op"]
    if ASOBJ[0] and op in ("set", "add"):
        # the Property constructor itself rejects a malformed value / priority (raising mode): nothing reaches the block
        return outcome(lambda: style.setProperty(css.Property(unesc(a["lit"]), value_text(a["value"]), prio_text(a["prio"])),
                                                 replace=(op == "set")))
    if op == "set":
        return outcome(lambda: style.setProperty(unesc(a["lit"]), value_text(a["value"]), prio_text(a["prio"])))
    if op == "add":
        return outcome(lambda: style.setProperty(unesc(a["lit"]), value_text(a["value"]), prio_text(a["prio"]), replace=False))
    if op == "setitem":
        v = (value_text(a["value"]), prio_text(a["prio"])) if a["prio"] else value_text(a["value"])
        return outcome(lambda: style.__setitem__(unesc(a["lit"]), v))
    if op == "attrset":
        return outcome(lambda: setattr(style, domname(a["lit"]), value_text(a["value"])))
    if op == "remove":
        return outcome(lambda: style.removeProperty(unesc(a["lit"])))
    if op == "delitem":
        return outcome(lambda: style.__delitem__(unesc(a["lit"])))
    if op == "attrdel":
        return outcome(lambda: delattr(style, domname(a["lit"])))
    if op == "setempty":
        return outcome(lambda: style.setProperty(unesc(a["lit"]), ""))
    if op == "settext":
        # variant: a comment before every declaration (items of the block that are not entries of the list)
        pre = "/*c*/ " if COMMENTS[0] else ""
        return outcome(lambda: setattr(style, "cssText", "; ".join(pre + decl_text(d) for d in a["decls"])))
    raise ValueError(op)


def run_trace(item):
    """item = {'id':..., 'actions': [...]} -> trace record for DeclBlockTrace"""
    init()
    COMMENTS[0] = bool(item.get("comments"))
    ASOBJ[0] = bool(item.get("asobj"))
    style = CSSStyleDeclaration()
    tr = {"id": item["id"], "init": project(style), "steps": []}
    for a in item["actions"]:
        out, ret = apply(style, a)
        tr["steps"].append({"a": a, "out": out, "ret": ret if isinstance(ret, str) else "", "post": project(style)})
    return tr


def run_domname(item):
    """one known property: set / get / delete through the DOM attribute TLC computed and through the CSS name"""
    init()
    r = dict(item)
    rid = r.pop("id")
    css_name = "".join(chr(c) for c in r["css"])
    dom = "".join(chr(c) for c in r["dom"])
    o = {"exists": hasattr(CSSStyleDeclaration, dom), "out": "ok", "byname": "", "keys": [], "byattr": "", "afterdel": -1}

    def f():
        st = CSSStyleDeclaration()
        setattr(st, dom, "inherit")
        o["byname"] = st.getPropertyValue(css_name)
        o["keys"] = [[ord(c) for c in k] for k in st.keys()]
        st2 = CSSStyleDeclaration()
        st2.setProperty(css_name, "0")
        o["byattr"] = getattr(st2, dom)
        delattr(st2, dom)
        o["afterdel"] = st2.length
    if o["exists"]:
        o["out"], _ = outcome(f)
    a = {"kind": "domname", "css": r["css"], "dom": r["dom"], "name": css_name, "attr": dom}
    return {"id": rid, "item": a, "init": {"x": 0}, "steps": [{"a": a, "out": "ok", "post": o}]}
