"""Adapter for spec/MutatorsContract.tla (C11): renders a cell (class, mutator, stage, prior, attach, readonly) of the
matrix enumerated by spec/Mutators.tla into one real call and records the fingerprint of target / owner rule / sheet
before and after.  Cells without a rendering are reported as not applicable (skip)."""
from .common import cssutils, init, outcome
import cssutils.css as css
from cssutils.stylesheets import MediaList, MediaQuery

SHEET_TEXT = ('@namespace p "u";\n@variables { c: red }\n/*c*/\na, p|b { left: 0; top: 1px !important }\ne { color: var(c) }\n'
              '@media print, tv { c { left: 0 } d { top: 0 } }\n@page :first { margin: 0; @top-left { left: 0 } }\n'
              '@font-face { font-family: x }\n@x y;\n')
SHEET_IMPORT = '@charset "utf-8";\n@import "x.css" print, tv;\n@variables { a: 1 }\na { left: 0 }\n'


def fetcher(url):
    return None, "imported { left: 0 }"


def text(x):
    return x.decode("utf-8", "replace") if isinstance(x, bytes) else x


def fp(obj):
    """serialisation of any DOM object (string); never raises"""
    if obj is None:
        return "none"
    for attr in ("cssText", "mediaText", "selectorText"):
        if hasattr(type(obj), attr):
            out, r = outcome(lambda: getattr(obj, attr))
            return text(r) if out == "ok" else "#" + out
    return "#nofingerprint"


def lists(obj):
    """structural queries of an object as a list of strings; never raises"""
    res = []

    def add(name, fn):
        out, r = outcome(fn)
        res.append("%s=%s" % (name, r if out == "ok" else "#" + out))

    if obj is None:
        return res
    if hasattr(obj, "cssRules"):
        add("rules", lambda: [r.typeString for r in obj.cssRules])
    if hasattr(obj, "namespaces") and not isinstance(obj, css.CSSStyleDeclaration):
        add("namespaces", lambda: sorted(dict(obj.namespaces.items()).items()))
    if hasattr(obj, "style") and obj.style is not None:
        add("props", lambda: [(p.name, p.value, p.priority) for p in obj.style.getProperties(all=True)])
    if isinstance(obj, css.CSSStyleDeclaration):
        add("props", lambda: [(p.name, p.value, p.priority) for p in obj.getProperties(all=True)])
    if hasattr(obj, "selectorList"):
        add("selectors", lambda: [s.selectorText for s in obj.selectorList])
    if isinstance(obj, css.Property):
        add("property", lambda: (obj.name, obj.literalname, obj.value, obj.priority, obj.literalpriority))
    if isinstance(obj, css.CSSStyleDeclaration):
        add("literal", lambda: [(p.literalname, p.literalpriority) for p in obj.getProperties(all=True)])
    if isinstance(obj, css.SelectorList):
        add("selectors", lambda: [s.selectorText for s in obj])
    if hasattr(obj, "media") and obj.media is not None:
        add("media", lambda: [getattr(m, "value", m).mediaText for m in obj.media])
    if isinstance(obj, MediaList):
        add("media", lambda: [getattr(m, "value", m).mediaText for m in obj])
    if hasattr(obj, "encoding") and not hasattr(obj, "cssRules"):
        add("encoding", lambda: obj.encoding)
    if hasattr(obj, "prefix"):
        add("prefix", lambda: (obj.prefix, obj.namespaceURI))
    if isinstance(obj, css.Property):
        add("prop", lambda: (obj.name, obj.value, obj.priority))
    if isinstance(obj, css.CSSVariablesDeclaration):
        add("vars", lambda: [(k, obj.getVariableValue(k)) for k in obj.keys()])
    if hasattr(obj, "variables") and not hasattr(obj, "cssRules"):
        add("vars", lambda: [(k, obj.variables[k]) for k in obj.variables.keys()])
    if isinstance(obj, css.CSSStyleSheet):
        add("sheetvars", lambda: [(k, obj.variables[k]) for k in obj.variables.keys()])
    return res


# ---- building targets ----------------------------------------------------------------------------------------------
def sheet_of(prior, imports=False):
    p = cssutils.CSSParser(fetcher=fetcher)
    s = p.parseString((SHEET_IMPORT if imports else SHEET_TEXT) if prior == "populated" else
                      ('@import "x.css";' if imports else 'a { left: 0 }'))
    cssutils.log.raiseExceptions = True
    return s


def by_type(sheet, typestring):
    return [r for r in sheet.cssRules if r.typeString == typestring][0]


def build(cell):
    """-> (target, owner rule or None, sheet or None) or None when the cell has no rendering"""
    c, prior, attach, ro = cell["cls"], cell["prior"], cell["attach"], cell["readonly"]
    pop = prior in ("populated", "odd")
    if prior == "odd":
        if ro:
            return None
        if attach == "insheet":
            if c not in ("sheet", "declaration", "property", "mediarule", "pagerule"):
                return None
            s = cssutils.CSSParser(fetcher=fetcher).parseString(
                '@charset "utf-8";\n@import "x.css";\na, b { left: 0 !IMPORTANT; top: 1px !im\\portant }\n'
                '@media print { c { left: 0 } d { top: 0 } e { top: 1px } }\n@page :first { margin: 0; @top-left { left: 0 } @top-right { left: 0 } }\n',
                href="http://example.com/sheet.css")
            if c == "sheet":
                return s, None, s
            if c in ("mediarule", "pagerule"):
                r = by_type(s, "MEDIA_RULE" if c == "mediarule" else "PAGE_RULE")
                return r, r, s
            st = by_type(s, "STYLE_RULE")
            return (st.style if c == "declaration" else st.style.getProperties(all=True)[0]), st, s
        if c == "property":
            return css.CSSStyleDeclaration(cssText="left: 1px !IMPORTANT").getProperties(all=True)[0], None, None
        if c == "declaration":
            return css.CSSStyleDeclaration(cssText="left: 0 !IMPORTANT; top: 1px !im\\portant"), None, None
        if c == "medialist":
            ml = MediaList(mediaText="screen, print")
            ml[0] = "all"           # 'all, print': only item assignment produces this list
            return ml, None, None
        # objects that live outside any sheet and carry their own namespaces
        if c == "selector":
            return css.Selector(("p|x[p|att] > *|y", {"p": "u"})), None, None
        if c == "selectorlist":
            return css.SelectorList(selectorText=("p|x, y", {"p": "u"})), None, None
        if c == "stylerule":
            return css.CSSStyleRule(selectorText=("p|x, y", {"p": "u"}), style="left: 0"), None, None
        return None
    if ro and attach == "insheet":
        return None     # read-only objects are created through the constructor flag
    if attach == "insheet":
        if c == "sheet":
            s = sheet_of(prior)
            return s, None, s
        imports = c in ("importrule", "charsetrule", "variablesrule")
        if not pop and c not in ("stylerule", "declaration", "property", "value", "colorvalue", "selectorlist", "selector") and not imports:
            return None  # the fresh sheet only holds a style rule (or an @import)
        s = sheet_of("populated" if c in ("charsetrule", "variablesrule") else prior, imports)
        kind = {"stylerule": "STYLE_RULE", "mediarule": "MEDIA_RULE", "pagerule": "PAGE_RULE", "importrule": "IMPORT_RULE",
                "namespacerule": "NAMESPACE_RULE", "charsetrule": "CHARSET_RULE", "fontfacerule": "FONT_FACE_RULE",
                "comment": "COMMENT", "unknownrule": "UNKNOWN_RULE", "variablesrule": "VARIABLES_RULE"}
        if c in kind:
            r = by_type(s, kind[c])
            return r, r, s
        if c == "marginrule":
            pr = by_type(s, "PAGE_RULE")
            return pr.cssRules[0], pr, s
        st = by_type(s, "STYLE_RULE")
        if c == "declaration":
            return st.style, st, s
        if c == "property":
            return st.style.getProperties(all=True)[0], st, s
        if c == "value":
            return st.style.getProperties(all=True)[0].propertyValue, st, s
        if c == "colorvalue":
            st.style.setProperty("color", "rgb(1, 2, 3)")
            return st.style.getProperty("color").propertyValue[0], st, s
        if c == "selectorlist":
            return st.selectorList, st, s
        if c == "selector":
            return st.selectorList[0], st, s
        if c == "medialist":
            mr = by_type(s, "MEDIA_RULE")
            return mr.media, mr, s
        if c == "mediaquery":
            mr = by_type(s, "MEDIA_RULE")
            return mr.media[0], mr, s
        return None
    # stand-alone objects
    k = {"readonly": True} if ro else {}
    mk = {
        "sheet": lambda: css.CSSStyleSheet(readonly=ro),
        "stylerule": lambda: css.CSSStyleRule(selectorText="a, b", style="left: 0; top: 1px !important", **k) if pop else css.CSSStyleRule(**k),
        "mediarule": lambda: css.CSSMediaRule(mediaText="print, tv", **k),
        "pagerule": lambda: css.CSSPageRule(selectorText=":first", style="margin: 0", **k) if pop else css.CSSPageRule(**k),
        "importrule": lambda: css.CSSImportRule(href="x.css", mediaText="print, tv", **k) if pop else css.CSSImportRule(**k),
        "namespacerule": lambda: css.CSSNamespaceRule(namespaceURI="u", prefix="p", **k) if pop else css.CSSNamespaceRule(**k),
        "charsetrule": lambda: css.CSSCharsetRule(encoding="utf-8", **k) if pop else css.CSSCharsetRule(**k),
        "fontfacerule": lambda: css.CSSFontFaceRule(style="font-family: x", **k) if pop else css.CSSFontFaceRule(**k),
        "comment": lambda: css.CSSComment("/*c*/", **k) if pop else css.CSSComment(**k),
        "unknownrule": lambda: css.CSSUnknownRule("@x y;", **k) if pop else css.CSSUnknownRule(**k),
        "variablesrule": lambda: css.CSSVariablesRule(variables=css.CSSVariablesDeclaration(cssText="a: 1"), **k) if pop else css.CSSVariablesRule(**k),
        "marginrule": lambda: css.MarginRule(margin="@top-left", style="left: 0", **k) if pop else css.MarginRule(**k),
        "declaration": lambda: css.CSSStyleDeclaration(cssText="left: 0; top: 1px !important" if pop else "", **k),
        "property": lambda: css.Property("left", "1px", "important") if pop else css.Property(),
        "value": lambda: css.PropertyValue(cssText="1px solid red" if pop else None, **k),
        "colorvalue": lambda: css.PropertyValue(cssText="rgb(1, 2, 3)")[0],
        "selectorlist": lambda: css.SelectorList(selectorText="a, b" if pop else None, **k),
        "variablesdecl": lambda: css.CSSVariablesDeclaration(cssText="a: 1; z: 2" if pop else "", **k),
        "selector": lambda: css.Selector(selectorText="a b" if pop else None, **k),
        "medialist": lambda: MediaList(mediaText="print, tv" if pop else None, **k),
        "mediaquery": lambda: MediaQuery(mediaText="print and (color)" if pop else None, **k),
    }
    if c not in mk or (ro and c in ("property", "colorvalue")):
        return None
    out, obj = outcome(mk[c])
    if out != "ok":
        return None
    if c == "sheet" and pop and not ro:
        obj.cssText = SHEET_TEXT
    if c == "mediarule" and pop and not ro:
        obj.insertRule("c { left: 0 }")
    return obj, None, None


# ---- inputs ----------------------------------------------------------------------------------------------------------
BAD = {
    ("sheet", "cssText"): {"immediate": "}{", "late": 'a { left: 0 } b { top: 1px } @import "x";', "nested": "a { left: 0 } @media print { b { top: } }",
                           "hierarchy": 'a { left: 0 } @charset "utf-8";'},
    ("sheet", "insertRule"): {"list": ("#list:x { left: 0 } @page { @bottom-left { left: 0 } } z { top: 0 }", 2), "immediate": ("$$$", 0), "late": ("a { left: 0; top: }", 0), "nested": ("@media print { a { left: } }", 0),
                              "hierarchy": ('@import "x";', "end"), "index": ("a { left: 0 }", 99)},
    ("sheet", "add"): {"list": "#list:@charset \"ascii\"; x { left: 0 } @page { @bottom-left { left: 0 } } z { top: 0 }", "immediate": "$$$", "late": "a { left: 0 } b { top: 0 }", "nested": "@media print { a { left: } }"},
    ("sheet", "deleteRule"): {"index": 99, "hierarchy": 0},
    ("sheet", "encoding"): {"immediate": "no-such-encoding", "late": "INVALID ENCODING"},
    ("sheet", "nsset"): {"hierarchy": ("p", "other")},
    ("sheet", "nsdel"): {"immediate": "zz", "hierarchy": "p"},
    ("stylerule", "cssText"): {"immediate": "$ { left: 0 }", "late": "x { left: 0; top: }", "nested": "x { left: 0; color: rgb( }",
                               "wrongtype": "@media print { a { left: 0 } }", "hierarchy": "zz|x { left: 0 }"},
    ("stylerule", "selectorText"): {"immediate": ",", "late": "x, y, $", "nested": "x, y:not(", "hierarchy": "zz|x"},
    ("stylerule", "styleText"): {"immediate": "}", "late": "bottom: 0; top: }", "nested": "bottom: 0; color: rgb("},
    ("mediarule", "cssText"): {"immediate": "@media 3d { x { left: 0 } }", "late": '@media tv { x { left: 0 } @import "x"; }',
                               "nested": "@media tv { x { left: } }", "wrongtype": "x { left: 0 }", "hierarchy": '@media tv { @charset "utf-8"; }'},
    ("mediarule", "insertRule"): {"list": ("#list:x { left: 0 } @font-face { font-family: y } z { top: 0 }", 1), "immediate": ("$$", 0), "nested": ("x { left: }", 0), "hierarchy": ('@import "x";', 0), "index": ("x { left: 0 }", 99)},
    ("mediarule", "add"): {"immediate": "$$", "nested": "x { left: }", "hierarchy": '@namespace p "u";'},
    ("mediarule", "deleteRule"): {"index": 99},
    ("mediarule", "mediaText"): {"immediate": "3d", "late": "braille, 3d", "nested": "braille, screen and (color"},
    ("pagerule", "cssText"): {"immediate": "@page $$ { margin: 0 }", "late": "@page :left { bottom: 0; top: }", "nested": "@page :left { @top-left { left: } }",
                              "wrongtype": "x { left: 0 }"},
    ("pagerule", "selectorText"): {"immediate": "$", "late": ":left $"},
    ("pagerule", "styleText"): {"immediate": "}", "late": "bottom: 0; top: }"},
    ("pagerule", "insertRule"): {"list": ("#list:@page { @bottom-left { left: 0 } } x { left: 0 } @page { @bottom-right { left: 0 } }", 1), "immediate": ("$$", 0), "hierarchy": ("@media print { x { left: 0 } }", 0), "index": ("@top-right { left: 0 }", 99),
                                 "nested": ("@top-right { left: }", 0)},
    ("importrule", "cssText"): {"immediate": "@import;", "late": '@import "y.css" braille, 3d;', "wrongtype": "x { left: 0 }"},
    ("importrule", "mediaText"): {"immediate": "3d", "late": "braille, 3d"},
    ("namespacerule", "cssText"): {"immediate": "@namespace;", "late": '@namespace q "v" x;', "wrongtype": "x { left: 0 }"},
    ("namespacerule", "prefix"): {"immediate": "3"},
    ("namespacerule", "namespaceURI"): {"hierarchy": "other"},
    ("charsetrule", "cssText"): {"immediate": "@charset ascii;", "late": '@charset "ascii" x;', "wrongtype": "x { left: 0 }", "nested": '@charset "no-such-codec";'},
    ("charsetrule", "encoding"): {"immediate": "INVALID ENCODING", "late": "no-such-codec"},
    ("fontfacerule", "cssText"): {"immediate": "@font-face $ { font-family: y }", "late": "@font-face { font-family: y; src: }", "wrongtype": "x { left: 0 }"},
    ("fontfacerule", "styleText"): {"immediate": "}", "late": "font-family: y; src: }"},
    ("comment", "cssText"): {"immediate": "x", "late": "/*y*/ x", "wrongtype": "x { left: 0 }"},
    ("unknownrule", "cssText"): {"immediate": "x { left: 0 }", "late": "@y { [ }", "wrongtype": "/*c*/"},
    ("variablesrule", "cssText"): {"immediate": "@variables $ { b: 2 }", "late": "@variables { b: 2; c: }", "wrongtype": "x { left: 0 }"},
    ("variablesrule", "variablesText"): {"immediate": "}", "late": "b: 2; c: }"},
    ("marginrule", "cssText"): {"immediate": "@foo { top: 0 }", "late": "@top-right { bottom: 0; top: }", "wrongtype": "x { left: 0 }"},
    ("marginrule", "margin"): {"immediate": "@nonsense"},
    ("marginrule", "styleText"): {"immediate": "}", "late": "bottom: 0; top: }"},
    ("declaration", "cssText"): {"immediate": ":", "late": "bottom: 0; top: }", "nested": "bottom: 0; color: rgb("},
    ("declaration", "setProperty"): {"immediate": ("bottom", "}"), "late": ("bottom", "1px }"), "nested": ("color", "rgb(")},
    ("declaration", "setPropertyPriority"): {"immediate": ("bottom", "1px", "!imp"), "late": ("left", "2px", "!important x")},
    ("property", "cssText"): {"immediate": ": 1px", "late": "bottom: 2px !imp", "nested": "color: rgb("},
    ("property", "name"): {"immediate": "1a"},
    ("property", "value"): {"immediate": "}", "late": "2px }", "nested": "rgb("},
    ("property", "priority"): {"immediate": "!imp", "late": "!important x"},
    ("value", "cssText"): {"immediate": "}", "late": "2px }", "nested": "f(2px, }"},
    ("colorvalue", "cssText"): {"immediate": "}", "late": "rgb(10%, 20, 30)", "nested": "hsl(120, 50, 50)", "wrongtype": "rgba(1, 2, 3, 50%)"},
    ("selectorlist", "selectorText"): {"immediate": ",", "late": "x, $", "nested": "x, y:not(", "hierarchy": "zz|x"},
    ("selectorlist", "appendSelector"): {"immediate": "$", "late": "x, y", "nested": "y:not(", "hierarchy": "zz|x"},
    ("selectorlist", "setitem"): {"immediate": (0, "$"), "nested": (0, "y:not("), "hierarchy": (0, "zz|x"), "index": (9, "x")},
    ("selectorlist", "append"): {"immediate": "$", "nested": "y:not(", "hierarchy": "zz|x"},
    ("declaration", "setitem"): {"immediate": ("bottom", "}"), "late": ("bottom", "1px }"), "nested": ("color", "rgb(")},
    ("declaration", "attrset"): {"immediate": ("bottom", "}"), "late": ("bottom", "1px }"), "nested": ("color", "rgb(")},
    ("pagerule", "add"): {"immediate": "$$", "nested": "@top-right { left: }", "hierarchy": "@media print { x { left: 0 } }"},
    ("pagerule", "deleteRule"): {"index": 99},
    ("variablesdecl", "cssText"): {"immediate": "}", "late": "b: 2; c: }"},
    ("variablesdecl", "setVariable"): {"immediate": ("b", "}"), "late": ("b", "2 }")},
    ("variablesdecl", "setitem"): {"immediate": ("b", "}"), "late": ("b", "2 }")},
    ("medialist", "append"): {"immediate": "3d", "late": "braille and", "nested": "screen and (color"},
    ("selector", "selectorText"): {"immediate": "$", "late": "x y $", "nested": "x:not(", "hierarchy": "zz|x"},
    ("medialist", "mediaText"): {"immediate": "3d", "late": "braille, 3d", "nested": "braille, screen and (color"},
    ("medialist", "appendMedium"): {"hierarchy": "print", "immediate": "3d", "late": "braille and", "nested": "screen and (color"},
    ("medialist", "deleteMedium"): {"immediate": "embossed"},
    ("mediaquery", "mediaText"): {"immediate": "3d", "late": "braille and (color) x", "nested": "braille and (color"},
    ("mediaquery", "mediaType"): {"immediate": "nonsense"},
}
GOOD = {  # well-formed inputs, used for read-only targets (only the read-only guard may reject them)
    ("sheet", "cssText"): "x { left: 0 }", ("sheet", "insertRule"): ("x { left: 0 }", 0), ("sheet", "add"): "x { left: 0 }",
    ("sheet", "deleteRule"): 0, ("sheet", "encoding"): "ascii",
    ("stylerule", "cssText"): "x { bottom: 0 }", ("stylerule", "selectorText"): "x", ("stylerule", "styleText"): "bottom: 0",
    ("mediarule", "cssText"): "@media braille { x { left: 0 } }", ("mediarule", "insertRule"): ("x { left: 0 }", 0), ("mediarule", "add"): "x { left: 0 }",
    ("mediarule", "deleteRule"): 0,
    ("pagerule", "cssText"): "@page :left { bottom: 0 }", ("pagerule", "selectorText"): ":left", ("pagerule", "styleText"): "bottom: 0",
    ("pagerule", "insertRule"): ("@top-right { left: 0 }", 0),
    ("importrule", "cssText"): '@import "y.css";', ("namespacerule", "cssText"): '@namespace q "v";', ("namespacerule", "prefix"): "q",
    ("charsetrule", "cssText"): '@charset "ascii";', ("charsetrule", "encoding"): "ascii",
    ("fontfacerule", "cssText"): "@font-face { font-family: y }", ("fontfacerule", "styleText"): "font-family: y",
    ("comment", "cssText"): "/*y*/", ("unknownrule", "cssText"): "@y z;", ("variablesrule", "cssText"): "@variables { b: 2 }",
    ("marginrule", "cssText"): "@top-right { top: 0 }", ("marginrule", "margin"): "@top-right", ("marginrule", "styleText"): "top: 0",
    ("declaration", "cssText"): "bottom: 0", ("declaration", "setProperty"): ("bottom", "0"), ("declaration", "setPropertyPriority"): ("bottom", "0", "important"),
    ("declaration", "removeProperty"): "left",
    ("value", "cssText"): "2px", ("selectorlist", "selectorText"): "x, y", ("selectorlist", "appendSelector"): "y", ("selectorlist", "setitem"): (0, "x"),
    ("selectorlist", "append"): "y", ("declaration", "setitem"): ("bottom", "0"), ("declaration", "attrset"): ("bottom", "0"),
    ("declaration", "delitem"): "left", ("declaration", "attrdel"): "left", ("pagerule", "add"): "@top-right { left: 0 }", ("pagerule", "deleteRule"): 0,
    ("variablesdecl", "cssText"): "b: 2", ("variablesdecl", "setVariable"): ("b", "2"), ("variablesdecl", "removeVariable"): "a",
    ("variablesdecl", "setitem"): ("b", "2"), ("variablesdecl", "delitem"): "a", ("medialist", "append"): "braille", ("medialist", "setitem"): (0, "braille"),
    ("selector", "selectorText"): "x", ("medialist", "mediaText"): "braille", ("medialist", "appendMedium"): "braille",
    ("medialist", "deleteMedium"): "print", ("mediaquery", "mediaText"): "braille", ("mediaquery", "mediaType"): "braille",
}


def rule_list(spec):
    """'#list:<sheet text>' -> the rule objects of that sheet, margin rules taken out of their @page rules (so that a member
    can be something that is not allowed at the destination)"""
    src = cssutils.parseString(spec[len("#list:"):])
    out = css.CSSRuleList()
    for r in src.cssRules:
        if r.type == r.PAGE_RULE and r.cssRules.length and not r.style.length:
            for m in r.cssRules:
                list.append(out, m)
        else:
            list.append(out, r)
    return out


def call(target, cls, mut, arg):
    t = target
    if isinstance(arg, tuple) and isinstance(arg[0], str) and arg[0].startswith("#list:"):
        arg = (rule_list(arg[0]),) + tuple(arg[1:])
    elif isinstance(arg, str) and arg.startswith("#list:"):
        arg = rule_list(arg)
    if mut == "cssText":
        return outcome(lambda: setattr(t, "cssText", arg))
    if mut == "insertRule":
        idx = len(t.cssRules) if arg[1] == "end" else arg[1]
        return outcome(lambda: t.insertRule(arg[0], idx))
    if mut == "add":
        return outcome(lambda: t.add(arg))
    if mut == "deleteRule":
        return outcome(lambda: t.deleteRule(arg))
    if mut == "encoding":
        return outcome(lambda: setattr(t, "encoding", arg))
    if mut == "nsset":
        return outcome(lambda: t.namespaces.__setitem__(arg[0], arg[1]))
    if mut == "nsdel":
        return outcome(lambda: t.namespaces.__delitem__(arg))
    if mut == "selectorText":
        return outcome(lambda: setattr(t, "selectorText", arg))
    if mut == "styleText":
        return outcome(lambda: setattr(t, "style", arg))
    if mut == "mediaText":
        return outcome(lambda: setattr(t.media if hasattr(t, "media") and not isinstance(t, (MediaList, MediaQuery)) else t, "mediaText", arg))
    if mut == "prefix":
        return outcome(lambda: setattr(t, "prefix", arg))
    if mut == "namespaceURI":
        return outcome(lambda: setattr(t, "namespaceURI", arg))
    if mut == "variablesText":
        return outcome(lambda: setattr(t.variables, "cssText", arg))
    if mut == "margin":
        return outcome(lambda: setattr(t, "margin", arg))
    if mut == "setProperty":
        return outcome(lambda: t.setProperty(arg[0], arg[1]))
    if mut == "setPropertyPriority":
        return outcome(lambda: t.setProperty(arg[0], arg[1], arg[2]))
    if mut == "removeProperty":
        return outcome(lambda: t.removeProperty(arg))
    if mut == "name":
        return outcome(lambda: setattr(t, "name", arg))
    if mut == "value":
        return outcome(lambda: setattr(t, "value", arg))
    if mut == "priority":
        return outcome(lambda: setattr(t, "priority", arg))
    if mut == "appendSelector":
        return outcome(lambda: t.appendSelector(arg))
    if mut == "setitem":
        return outcome(lambda: t.__setitem__(arg[0], arg[1]))
    if mut == "append":
        return outcome(lambda: t.append(arg))
    if mut == "delitem":
        return outcome(lambda: t.__delitem__(arg))
    if mut == "attrset":
        return outcome(lambda: setattr(t, arg[0], arg[1]))
    if mut == "attrdel":
        return outcome(lambda: delattr(t, arg))
    if mut == "setVariable":
        return outcome(lambda: t.setVariable(arg[0], arg[1]))
    if mut == "removeVariable":
        return outcome(lambda: t.removeVariable(arg))
    if mut == "appendMedium":
        return outcome(lambda: t.appendMedium(arg))
    if mut == "deleteMedium":
        return outcome(lambda: t.deleteMedium(arg))
    if mut == "mediaType":
        return outcome(lambda: setattr(t, "mediaType", arg))
    return None


def observe(target, owner, sheet):
    return {"target": fp(target), "owner": fp(owner), "sheet": fp(sheet),
            "lists": lists(target) + lists(owner) + lists(sheet)}


def run_cell(cell):
    init()
    cssutils.ser.prefs.keepEmptyRules = True
    key = (cell["cls"], cell["mut"])
    if cell["readonly"]:
        arg = GOOD.get(key)
    else:
        arg = BAD.get(key, {}).get(cell["stage"])
    if arg is None:
        return {"id": cell["id"], "skip": True}
    b = build(cell)
    if b is None:
        return {"id": cell["id"], "skip": True}
    target, owner, sheet = b
    pre = observe(target, owner, sheet)
    r = call(target, cell["cls"], cell["mut"], arg)
    if r is None:
        return {"id": cell["id"], "skip": True}
    out = r[0]
    post = observe(target, owner, sheet)
    a = {k: cell[k] for k in ("cls", "mut", "stage", "prior", "attach", "readonly")}
    a["input"] = repr(arg)
    return {"id": cell["id"], "item": a, "init": pre, "steps": [{"a": a, "out": out, "post": post}]}
