"""Adapter for spec/RoundTripContract.tla (C03): serialise -> parse -> serialise on whole sheets, on single nodes,
on DOMs reached by accepted edits, and on character content in every text-carrying position."""
import hashlib, glob
from .common import cssutils, init, outcome
from . import sheetast, sheetdom
import cssutils.css as css
from cssutils.stylesheets import MediaList

CP = {"plain": "x", "hexletter": "a", "hexupper": "B", "digit": "1", "dq": '"', "sq": "'", "bs": "\\", "lf": "\n", "cr": "\r", "ff": "\f", "tab": "\t", "sp": " ",
      "lp": "(", "rp": ")", "sc": ";", "cm": ",", "starslash": "*/", "lb": "{", "rb": "}", "nonascii": "é", "astral": "\U0001F600", "ctl": "\x01"}


def digest(x):
    if isinstance(x, str):
        x = x.encode("utf-8", "surrogatepass")
    return hashlib.sha1(x).hexdigest()[:16]


def prefs(mode):
    cssutils.ser.prefs.useDefaults()
    if mode == "safe":
        cssutils.ser.prefs.keepEmptyRules = True
        cssutils.ser.prefs.resolveVariables = False


def node_checks(sheet):
    """single nodes: text read and set back on a fresh object of the same class"""
    nodes = []

    def add(kind, proj1, text1, make):
        def f():
            fresh = make(text1)
            return fresh
        out, fresh = outcome(lambda: make(text1))
        if out != "ok":
            nodes.append({"kind": kind, "out": out, "proj1": proj1, "proj2": None if False else [], "text1": digest(text1), "text2": ""})
            return
        p2, t2 = fresh
        nodes.append({"kind": kind, "out": "ok", "proj1": proj1, "proj2": p2, "text1": digest(text1), "text2": digest(t2)})

    for r in list(sheet.cssRules)[:6]:
        t = r.typeString
        if t == "STYLE_RULE":
            def mk_rule(txt, r=r):
                n = css.CSSStyleRule()
                n.cssText = (txt, dict(sheet.namespaces.items()))
                return [sheetast.project_rule(n)], n.cssText
            add("stylerule", [sheetast.project_rule(r)], r.cssText, mk_rule)

            def mk_style(txt):
                n = css.CSSStyleDeclaration(cssText=txt)
                return sheetast.body_of(n), n.cssText
            add("declaration", sheetast.body_of(r.style), r.style.cssText, mk_style)

            def mk_sel(txt):
                n = css.SelectorList(selectorText=(txt, dict(sheet.namespaces.items())))
                return [s.selectorText for s in n], n.selectorText
            add("selectorlist", [s.selectorText for s in r.selectorList], r.selectorText, mk_sel)
            for p in r.style.getProperties(all=True)[:2]:
                def mk_val(txt):
                    n = css.PropertyValue(cssText=txt)
                    return sheetast.comps(n), n.cssText
                add("value", sheetast.comps(p.propertyValue), p.propertyValue.cssText, mk_val)
        elif t == "MEDIA_RULE":
            def mk_ml(txt):
                n = MediaList(mediaText=txt)
                return [getattr(m, "value", m).mediaText for m in n], n.mediaText
            add("medialist", [getattr(m, "value", m).mediaText for m in r.media], r.media.mediaText, mk_ml)

            def mk_media(txt):
                n = css.CSSMediaRule()
                n.cssText = (txt, dict(sheet.namespaces.items()))      # like the style rule: a detached rule knows no prefixes
                return [sheetast.project_rule(n)], n.cssText
            add("mediarule", [sheetast.project_rule(r)], r.cssText, mk_media)
        elif t in ("PAGE_RULE", "FONT_FACE_RULE", "NAMESPACE_RULE", "IMPORT_RULE", "COMMENT", "CHARSET_RULE"):
            cls = type(r)

            def mk_same(txt, cls=cls):
                n = cls()
                n.cssText = txt
                return [sheetast.project_rule(n)], n.cssText
            if r.cssText:
                add(t.lower(), [sheetast.project_rule(r)], r.cssText, mk_same)
    return nodes


def observe(sheet, with_nodes=True):
    out, text1 = outcome(lambda: sheet.cssText)
    if out != "ok":
        return {"out": out, "reparse": "", "dom1": [], "dom2": [], "text1": "", "text2": "", "nodes": []}
    dom1 = sheetast.project(sheet)
    out2, s2 = outcome(lambda: sheetast.parse(text1))
    if out2 != "ok":
        return {"out": "ok", "reparse": out2, "dom1": dom1, "dom2": [], "text1": digest(text1), "text2": "", "nodes": []}
    out3, text2 = outcome(lambda: s2.cssText)
    o = {"out": "ok", "reparse": "ok" if out3 == "ok" else out3, "dom1": dom1, "dom2": sheetast.project(s2), "text1": digest(text1),
         "text2": digest(text2) if out3 == "ok" else "", "nodes": []}
    if with_nodes:
        o["nodes"] = node_checks(sheet)
    return o


def has_empty(ast):
    for r in ast:
        if r["k"] in ("style", "fontface", "page") and not [d for d in r["body"] if d["k"] == "decl"] and not r.get("margins"):
            return True
        if r["k"] == "media" and (not r["rules"] or has_empty(r["rules"])):
            return True
    return False


def run_sheet_row(item):
    """a TLC-generated AST in one spelling vector (chosen by the row id), both preference modes"""
    init()
    r = dict(item)
    rid = r.pop("id")
    ast = r["ast"]
    v = sheetast.VECTORS[rid % len(sheetast.VECTORS)]
    text = sheetast.render(ast, v)
    mode = "default" if (rid // len(sheetast.VECTORS)) % 2 and not has_empty(ast) else "safe"
    prefs(mode)
    sheet = sheetast.parse(text)
    o = observe(sheet)
    prefs("defaults")
    a = {"kind": "sheet", "vector": v["id"], "prefs": mode, "text": text}
    return {"id": rid, "item": a, "init": {"x": 0}, "steps": [{"a": a, "out": "ok", "post": o}]}


def run_file(item):
    """a real-world sheet shipped with the repository (or a statement slice of it)"""
    init()
    prefs("safe")
    text = item["text"]
    sheet = sheetast.parse(text)
    o = observe(sheet, with_nodes=True)
    prefs("defaults")
    a = {"kind": "file", "name": item["name"]}
    return {"id": item["id"], "item": a, "init": {"x": 0}, "steps": [{"a": a, "out": "ok", "post": o}]}


def run_history(item):
    """accepted DOM edits (SheetDOM behaviours generated by TLC): round trip after every accepted step"""
    init()
    prefs("safe")
    w = sheetdom.World()
    steps = []
    for a in item["actions"]:
        if a["op"] in ("kidinsert", "kidadd", "kidinsertlist") and a["j"] < len(w.sheet.cssRules):
            cont = w.sheet.cssRules[a["j"]]
            if cont.typeString == "PAGE_RULE" and (a["op"] == "kidinsertlist" or a["c"] != "margin" or len(cont.cssRules)):
                continue     # rules other than one margin box inside @page: how they serialise is not part of the statement
        out, _ = w.apply(a)
        if out == "ok":
            o = observe(w.sheet, with_nodes=False)
            cssutils.log.raiseExceptions = True
            steps.append({"a": {"kind": "edit", "op": a["op"], "action": a}, "out": out, "post": o})
    prefs("defaults")
    if not steps:
        return {"id": item["id"], "skip": True}
    return {"id": item["id"], "item": {"kind": "edit", "actions": item["actions"]}, "init": {"x": 0}, "steps": steps}


def run_decl_history(item):
    """accepted declaration edits (DeclBlock behaviours generated by TLC) on the block of a style rule inside a sheet"""
    from . import declblock
    init()
    prefs("safe")
    sheet = sheetast.parse("a { }")
    style = sheet.cssRules[0].style
    steps = []
    for a in item["actions"]:
        out, _ = declblock.apply(style, a)
        if out == "ok":
            o = observe(sheet, with_nodes=True)
            cssutils.log.raiseExceptions = True
            steps.append({"a": {"kind": "edit", "op": a["op"], "action": a}, "out": out, "post": o})
    prefs("defaults")
    if not steps:
        return {"id": item["id"], "skip": True}
    return {"id": item["id"], "item": {"kind": "edit", "actions": item["actions"]}, "init": {"x": 0}, "steps": steps}


# ---- content --------------------------------------------------------------------------------------------------------
def esc_for(pos, content, style="hex"):
    """write the content into the source: characters that would end or break the construct are written as CSS escapes
    (style 'simple': quotes and the backslash as backslash + character instead of a hex escape)"""
    out = ""
    for ch in content:
        if style == "simple" and pos not in ("comment", "comment-in-block", "ident", "class", "id") and ch in '"\'\\':
            # the templates quote with ": the other quote needs no escape (cssutils keeps a needless simple escape as written)
            out += ch if ch == "'" else "\\" + ch
            continue
        if pos in ("comment", "comment-in-block"):
            out += ch
        elif pos in ("ident", "class", "id"):
            out += ch if (ch.isalnum() and ch.isascii()) or ord(ch) > 127 else "\\%x " % ord(ch)
        else:
            out += "\\%x " % ord(ch) if ch in '"\'\\\n\r\f\x01' else ch
    return out


SRC = {"string": 'a { content: "%s" }', "url": 'a { background: url("%s") }', "ident": "a { font-family: z%s }", "class": ".z%s { left: 0 }",
       "id": "#z%s { left: 0 }", "attrvalue": 'a[b="%s"] { left: 0 }', "nsuri": '@namespace p "%s";', "href": '@import "%s";', "comment": "/*%s*/", "comment-in-block": "a { /*%s*/ left: 0 }"}


def read(sheet, pos):
    rules = [x for x in sheet.cssRules if x.typeString != "CHARSET_RULE"]
    r = rules[0] if rules else None
    if r is None:
        return "#norule"
    if pos == "string":
        return r.style.getProperty("content").propertyValue[0].value
    if pos == "url":
        return r.style.getProperty("background").propertyValue[0].uri
    if pos == "ident":
        return r.style.getProperty("font-family").propertyValue[0].value[1:]
    if pos in ("class", "id"):
        for it in r.selectorList[0].seq:
            if it.type in ("class", "id"):
                return it.value[2:]
        return "#noitem"
    if pos == "attrvalue":
        for it in r.selectorList[0].seq:
            if it.type in ("STRING", "attribute-value"):
                return it.value
        return "#noitem"
    if pos == "nsuri":
        return r.namespaceURI
    if pos == "href":
        return r.href
    if pos == "comment":
        return r.cssText[2:-2]
    if pos == "comment-in-block":
        for it in r.style.seq:
            if isinstance(it.value, css.CSSComment):
                return it.value.cssText[2:-2]
        return "#noitem"
    return "#?"


def run_importedit(item):
    """an @import rule, possibly with a comment next to its href, after an accepted edit through the DOM"""
    init()
    prefs("safe")
    r = dict(item)
    rid = r.pop("id")
    href = {"none": '"a.css"', "before-href": '/*c*/ "a.css"', "after-href": '"a.css" /*c*/'}[r["cm"]]
    src = "@import %s%s%s;\nz { left: 0 }" % (href, " print" if r["media"] == "print" else "", ' "nm"' if r["name"] else "")
    a = {"kind": "importedit", "op": r["edit"], "cm": r["cm"], "name": r["name"], "media": r["media"], "src": src}

    def f():
        sheet = sheetast.parse(src)
        rule = sheet.cssRules[0]
        if r["edit"] == "mediaText":
            rule.media.mediaText = "tv, print"
        elif r["edit"] == "mediaobject":
            rule.media = "screen"
        elif r["edit"] == "href":
            rule.href = "b.css"
        elif r["edit"] == "name":
            rule.name = "other"
        return observe(sheet, with_nodes=True)
    out, o = outcome(f)
    cssutils.log.raiseExceptions = True
    prefs("defaults")
    if out != "ok":
        return {"id": rid, "skip": True}       # the edit was rejected: nothing to round-trip
    return {"id": rid, "item": a, "init": {"x": 0}, "steps": [{"a": a, "out": "ok", "post": o}]}


def run_content_row(item):
    return run_importedit(item) if item.get("kind") == "importedit" else run_content(item)


def run_content(item):
    init()
    prefs("safe")
    r = dict(item)
    rid = r.pop("id")
    content = "".join(CP[c] for c in r["cs"])
    style = "simple" if rid % 2 else "hex"
    src = SRC[r["pos"]] % esc_for(r["pos"], content, style)
    enc = r.get("enc", "utf-8")
    if enc != "utf-8":
        if r["pos"] in ("nsuri", "href"):
            return {"id": rid, "skip": True}
        src = '@charset "%s";\n%s' % (enc, src)
    a = {"kind": "content", "pos": r["pos"], "cs": r["cs"], "cps": [ord(c) for c in content], "src": src, "enc": enc, "style": style}

    def f():
        sheet = sheetast.parse(src)
        c1 = read(sheet, r["pos"])
        o = observe(sheet, with_nodes=False)
        o["content1"] = [ord(c) for c in c1] if isinstance(c1, str) else [-1]
        if o["reparse"] == "ok":
            s2 = sheetast.parse(sheet.cssText)
            c2 = read(s2, r["pos"])
            o["content2"] = [ord(c) for c in c2] if isinstance(c2, str) else [-1]
        else:
            o["content2"] = []
        return o
    out, o = outcome(f)
    if out != "ok":
        o = {"out": out, "reparse": "", "dom1": [], "dom2": [], "text1": "", "text2": "", "nodes": [], "content1": [], "content2": []}
    prefs("defaults")
    return {"id": rid, "item": a, "init": {"x": 0}, "steps": [{"a": a, "out": "ok", "post": o}]}
