"""Adapter for spec/SoupContract.tla (C01): spell token soups in parser contexts, nesting sweeps and configuration rows;
run the default (non-raising) entry points under a CPU budget and record outcome classes only."""
import signal, time, traceback, logging, codecs, resource
from .common import cssutils

TOK = {"ident": ["zz", "\\61 b", "-x"], "IDENT-and": ["and"], "ident-important": ["important"], "ident-inherit": ["inherit"], "func": ["f("],
       "url(": ["url("], "var(": ["var("], "calc(": ["calc("], "rgb(": ["rgb("], "hsl(": ["hsl(", "hsla("], "not(": [":not("], "nth-child(": [":nth-child("],
       "expression(": ["expression("], "@charset-sp": ["@charset "], "@charset": ["@charset"], "@import": ["@import"], "@media": ["@media"],
       "@page": ["@page"], "@font-face": ["@font-face"], "@namespace": ["@namespace"], "@variables": ["@variables"], "@top-left": ["@top-left"],
       "@x": ["@x"], "hash": ["#abc", "#1"], "string": ['"s"', "'t'", '"http://[x"'], "uri": ["url(u)", "url(http://[x)"], "number": ["1", "-.5"], "percentage": ["50%"],
       "dimension": ["1px", "2e3"], "dimension-esc": ["1\\a x", "1\\70 x"], "number-huge": ["9" * 5000, "-" + "9" * 4400 + "px", "9" * 400, "1" + "0" * 400 + ".5", "-" + "9" * 400 + ".5", "-" + "9" * 400], "urange": ["u+0-7f"], "~=": ["~="], "|=": ["|="], "cdo": ["<!--"], "cdc": ["-->"], "S": [" ", "\t"],
       "comment": ["/*c*/"], "{": ["{"], "}": ["}"], "(": ["("], ")": [")"], "[": ["["], "]": ["]"], ";": [";"], ":": [":"], ",": [","], ".": ["."],
       "*": ["*"], ">": [">"], "+": ["+"], "!": ["!"], "/": ["/"], "=": ["="], "#": ["#"], "@": ["@"], "%": ["%"], "&": ["&"], "$": ["$"],
       "-": ["-"], "|": ["|"], "bs": ["\\"], "open-string": ['"abc', "'abc"], "open-comment": ["/* abc"], "open-url": ["url(abc", 'url("abc'],
       "esc-nl-end": ["#abc\\a ", "zz\\a ", "1px\\a ", '"s\\a "', "url(u\\a )", "@x\\a ", "#abcde\\a", "f\\a ("],
       "nonascii": ["é"], "astral": ["\U0001F600"], "ctl": ["\x01", "\x00"], "nl": ["\n", "\r\n", "\f"]}
CTX = {"sheet": "", "after-charset": '@charset "utf-8"', "import-prelude": "@import ", "namespace-prelude": "@namespace ", "media-prelude": "@media ",
       "media-rules": "@media print { ", "page-prelude": "@page ", "page-block": "@page { ", "fontface-block": "@font-face { ",
       "variables-block": "@variables { ", "unknown-prelude": "@x ", "unknown-block": "@x y { ", "selector": "a ", "attrib": "a[", "pseudo-arg": "a:nth-child(",
       "not-arg": "a:not(", "decl-block": "a { ", "decl-name": "a { x", "decl-value": "a { x: ", "decl-prio": "a { x: 1 !", "func-arg": "a { x: f(",
       "rgb-arg": "a { x: rgb(", "hsl-arg": "a { x: hsl(", "var-arg": "a { x: var(", "var-fallback": "a { x: var(y,", "calc-arg": "a { x: calc(", "url-open": "a { x: url(", "paren": "a { x: (", "bracket": "a { x: [",
       "style-attr": "", "margin-block": "@page { @top-left { "}
NEST = {"{": ("{", "}"), "(": ("(", ")"), "[": ("[", "]"), "func": ("f(", ")"), "calc(": ("calc(", ")"), "not(": (":not(", ")"),
        "@media": ("@media print {", "}"), "@media-rule": ("@media print {", "}"), "@x-block": ("@x {", "}"), "url(": ("url(", ")"), "rgb(": ("rgb(", ")"), "hsl(": ("hsl(", ")"), "var(": ("var(", ")"), "var-fallback": ("var(v,", ")"), "func-comma": ("f(1,", ")"), "calc-sum": ("calc(1px + ", ")"),
        "paren-in-selector": ("a(", ")"), "attr-in-not": (":not([", "])"), "string-in-func": ('f("', '")'), "comment": ("/*", "*/")}
RUN_OPEN = {"url(": ("url(", ")"), "url-dq": ('url("', '")'), "url-sq": ("url('", "')"), "dq": ('"', '"'), "sq": ("'", "'"), "comment": ("/*", "*/"),
            "ident": ("a", " "), "hash": ("#", " "), "number": ("1", "px"), "at": ("@", ";"), "func": ("f(", ")"), "urange": ("u+", " "),
            "cdo": ("<!--", "-->"), "attr-dq": ('[a="', '"]'), "important": ("!", "important"), "bs": ("\\", " ")}
RUN_BODY = {"letters": "a", "digits": "1", "spaces": " ", "bs-pairs": "\\\\", "stars": "*", "escaped-quotes": '\\"', "nonascii": "\u00e9", "hex-escapes": "\\41 ",
            "hex-letter-upper": "\\A ", "hex-letter-mixed": "\\aB ",
            "dashes": "-", "nl-escapes": "\\\n", "slashes": "/", "dots": "."}
TEXTS = {"plain": 'a { left: 0 } @media print { b { top: 1px } }', "malformed": 'a { left: } } @import "late"; b {{ x ]',
         "charset-hex": '@charset "hex";\na { left: 0 }', "charset-css": '@charset "css";\na { left: 0 }',
         "charset-rot13": '@charset "rot13";\na { left: 0 }', "charset-unknown": '@charset "no-such-encoding";\na { left: 0 }',
         "charset-undefined": '@charset "undefined";\na { left: 0 }',
         "variables-self": "@variables { a: var(a) } x { left: var(a) }", "variables-cycle": "@variables { a: var(b); b: var(a) } x { left: var(a); top: var(b) }",
         "variables-cycle-unused": "@variables { a: var(b); b: var(c); c: var(a) } x { left: 0 }",
         "surrogate-escape": 'a { content: "\\D800 x" } /* \\dfff */', "surrogate-literal": 'a { content: "\ud800" } /* \udfff */ @x \ud800;',
         "surrogate-ascii-charset": '@charset "ascii";\na { content: "\\D800 " }', "surrogate-in-selector": ".\\d800 x, #\ud900 { left: 0 }",
         "truncated-charset": "@charset ", "bom": "﻿a { left: 0 }", "charset-rule": '@charset "iso-8859-1";\na { content: "é" }', "empty": ""}


class Timeout(Exception):
    pass


def _alarm(*a):
    raise Timeout()


def budget_ms(n):
    return 1000 + (n * n) // 20


def site(e):
    """innermost cssutils frame of an exception: file:function (stable name of a crash site)"""
    tb = traceback.extract_tb(e.__traceback__)
    for fr in reversed(tb):
        if "/cssutils/" in fr.filename or "/encutils/" in fr.filename:
            return "%s:%s" % (fr.filename.rsplit("/", 1)[-1], fr.name)
    return "?"


def guarded(fn, limit_s):
    signal.signal(signal.SIGALRM, _alarm)
    signal.setitimer(signal.ITIMER_REAL, limit_s)
    t0 = time.process_time()
    try:
        r = fn()
        return "ok", r, (time.process_time() - t0) * 1000, ""
    except Timeout:
        return "TIMEOUT", None, (time.process_time() - t0) * 1000, ""
    except RecursionError as e:
        return "RecursionError", None, (time.process_time() - t0) * 1000, site(e)
    except Exception as e:
        return type(e).__name__, None, (time.process_time() - t0) * 1000, site(e)
    finally:
        signal.setitimer(signal.ITIMER_REAL, 0)


def observe(text, entry, comments=True, validate=True, fetcher=None, encoding=None):
    cssutils.log.setLevel(logging.FATAL)
    cssutils.log.raiseExceptions = True       # the library-wide default; the parser switches to logging for the parse
    n = len(text)
    lim = budget_ms(n) / 1000.0 * 1.5 + 1
    p = cssutils.CSSParser(parseComments=comments, validate=validate, fetcher=fetcher)
    if entry == "style":
        call = lambda: p.parseStyle(text)
    elif entry == "bytes":
        data = text if isinstance(text, bytes) else text.encode("utf-8", "surrogatepass")
        call = lambda: p.parseString(data, encoding=encoding)
    else:
        call = lambda: p.parseString(text)
    parsed, obj, cpu, where = guarded(call, lim)
    o = {"parsed": parsed, "class": type(obj).__name__ if obj is not None else "", "ser": "", "reparse": "", "reser": "", "cpu_ms": int(cpu),
         "n": n, "where": where}
    cssutils.log.raiseExceptions = True
    if parsed != "ok":
        return o
    ser, out1, _, w1 = guarded(lambda: obj.cssText, lim)
    o["ser"] = ser
    if ser != "ok":
        o["where"] = w1
        return o
    if entry == "style":
        rp, obj2, _, w2 = guarded(lambda: cssutils.CSSParser().parseStyle(out1), lim)
    else:
        rp, obj2, _, w2 = guarded(lambda: cssutils.CSSParser(fetcher=fetcher).parseString(out1), lim)
    o["reparse"] = rp
    cssutils.log.raiseExceptions = True
    if rp != "ok":
        o["where"] = w2
        return o
    rs, _, _, w3 = guarded(lambda: obj2.cssText, lim)
    o["reser"] = rs
    if rs != "ok":
        o["where"] = w3
    return o


def graph_fetcher(graph, kind):
    files = {"chain3": {"r.css": '@import "a.css";', "a.css": '@import "b.css"; x{left:0}', "b.css": '@import "c.css"; y{left:0}', "c.css": "z{left:0}"},
             "diamond": {"r.css": '@import "a.css"; @import "b.css";', "a.css": '@import "c.css";', "b.css": '@import "c.css";', "c.css": "z{left:0}"},
             "self-loop": {"r.css": '@import "r.css"; x{left:0}'},
             "two-cycle": {"r.css": '@import "a.css";', "a.css": '@import "r.css"; x{left:0}'},
             "missing": {"r.css": '@import "nope.css"; x{left:0}'}, "none": {"r.css": "x{left:0}"}}[graph]
    count = [0]

    def fetcher(url):
        count[0] += 1
        if count[0] > 200:
            raise RuntimeError("fetch budget exceeded")      # a cyclic graph must not be followed for ever
        name = url.rsplit("/", 1)[-1]
        if name not in files:
            return None
        if kind == "none":
            return None
        if kind == "nonepair":
            return (None, None)
        if kind == "nothing":
            return ()
        txt = files[name]
        if kind == "bad-encoding":
            return "no-such-encoding", txt.encode("utf-8")
        if kind.startswith("enc-"):
            return kind[4:], txt.encode("utf-8")
        if kind == "bytes-charset-unknown":
            return None, ('@charset "no-such-encoding";' + txt).encode("ascii")
        if kind.startswith("bytes-charset-"):
            return None, ('@charset "%s";' % kind[14:] + txt).encode("ascii")
        if kind.startswith("text-enc-"):
            return kind[9:], txt            # an encoding named for a text that needs no decoding
        if kind == "bytes-undecodable":
            return "ascii", txt.encode("ascii") + b" /* \xff\xfe */"
        if kind == "bytes-bom":
            return None, codecs.BOM_UTF8 + txt.encode("utf-8")
        if kind == "bytes-charset":
            return None, ('@charset "iso-8859-1";' + txt).encode("iso-8859-1")
        return None, txt
    return fetcher, files["r.css"]


def run_row(item):
    r = dict(item)
    rid = r.pop("id")
    k = r["kind"]
    opts = [(True, True), (False, True), (True, False), (False, False)][rid % 4]
    if k == "tokens":
        parts = [TOK[t][(rid + i) % len(TOK[t])] for i, t in enumerate(r["toks"])]
        seps = ["", " ", ""]
        text = CTX[r["ctx"]] + ("" if r.get("glue") else seps[rid % 3]).join(parts)
        if r.get("glue") and rid % 2:
            text += (")" if r["ctx"] == "not-arg" else "") + " { left: 0 }"        # the soup is the selector of a complete rule
        elif rid % 5 == 0:
            text += " }"      # sometimes closed afterwards
        o = observe(text, r["entry"], comments=opts[0], validate=opts[1])
    elif k == "propvalue":
        shape = {"long-ident-then-number": "a" * 40 + " 1", "many-idents": "a " * 30 + "1px", "many-numbers-then-ident": "1 " * 30 + "x",
                 "many-strings-then-number": '"s" ' * 20 + "1", "nested-functions": "f(" * 12 + "1" + ")" * 12 + " x"}[r["shape"]]
        text = "a { %s: %s }" % (r["name"], shape)
        o = observe(text, "string", comments=opts[0], validate=True)
    elif k == "wide":
        n = r["n"]
        text = {"value-space": "a { x: " + "b " * n + "}", "value-comma": "a { x: " + "1, " * n + "1 }", "value-slash": "a { x: " + "1/" * n + "1 }",
                "selector-list": ", ".join("a%d" % i for i in range(n)) + " { left: 0 }", "compound-selector": "a" + ".c" * n + " { left: 0 }",
                "descendants": "a " * n + "{ left: 0 }", "media-list": "@media " + ", ".join(["print", "tv", "screen and (color)"] * (n // 3)) + " { a { left: 0 } }",
                "import-media": '@import "x.css" ' + ", ".join(["print", "tv"] * (n // 2)) + ";", "declarations": "a { " + "left: 0; " * n + "}",
                "rules": "a { left: 0 } " * n, "function-args": "a { x: f(" + "1, " * n + "1) }", "media-rules": "@media print { " + "a { left: 0 } " * n + "}",
                "margin-boxes": "@page { " + "@top-left { left: 0 } " * n + "}", "variables": "@variables { " + "".join("v%d: 1; " % i for i in range(n)) + "}",
                "comments": "/*c*/ " * n + "a { left: 0 }", "namespaces": "".join('@namespace p%d "u%d"; ' % (i, i) for i in range(n)) + "a { left: 0 }",
                "imports": '@import "x.css"; ' * min(n, 300) + "a { left: 0 }"}[r["what"]]
        o = observe(text, "string", comments=opts[0], validate=opts[1])
    elif k == "longrun":
        op = RUN_OPEN[r["opener"]]
        text = op[0] + RUN_BODY[r["body"]] * r["n"] + {"eof": "", "newline-rule": "\nb { top: 0 }", "closer": op[1], "junk": " \x01 ) ] } ;"}[r["end"]]
        if r["ctx"] == "decl-value":
            text = "a { x: " + text + ("" if r["end"] == "eof" else " }")
        o = observe(text, "string", comments=opts[0], validate=opts[1])
    elif k == "nest":
        op, cl = NEST[r["opener"]]
        d = r["depth"]
        core = "1px" if r["opener"].startswith("calc") else "a { left: 0 }" if r["opener"] == "@media-rule" else "x"
        text = CTX[r["ctx"]] + op * d + core + (cl * d if r["close"] else "")
        o = observe(text, "string", comments=opts[0], validate=opts[1])
    else:
        fetcher, root = graph_fetcher(r["graph"], r["fetch"])
        if r["text"].startswith("bom-"):
            enc = r["text"][4:].replace("-lowzero", "")
            body = ("\u0100 , a { left: 0 }" if r["text"].endswith("lowzero") else "a { left: 0 } \u4e00 { top: 0 }")
            bom = {"utf-16-le": codecs.BOM_UTF16_LE, "utf-16-be": codecs.BOM_UTF16_BE, "utf-32-le": codecs.BOM_UTF32_LE,
                   "utf-32-be": codecs.BOM_UTF32_BE, "utf-8": codecs.BOM_UTF8}[enc]
            data = bom + body.encode(enc)
            o = observe(data, "bytes", comments=opts[0], validate=opts[1])
            a = dict(r, text=repr(data)[:120], comments=opts[0], validate=opts[1])
            return {"id": rid, "item": a, "init": {"x": 0}, "steps": [{"a": a, "out": "ok", "post": o}]}
        text = TEXTS[r["text"]]
        if r["graph"] != "none":
            text = root + "\n" + text if r["text"] not in ("bom", "charset-rule", "truncated-charset") else text + '\n@import "a.css";'
        enc = None
        if r["entry"] == "bytes" and r["text"] == "charset-rule":
            text = text.encode("iso-8859-1")
        o = observe(text, r["entry"], comments=opts[0], validate=opts[1], fetcher=fetcher, encoding=enc)
        text = text if isinstance(text, str) else text.decode("latin-1")
    a = dict(r, text=text[:300], comments=opts[0], validate=opts[1])
    return {"id": rid, "item": a, "init": {"x": 0}, "steps": [{"a": a, "out": "ok", "post": o}]}


def run_file(item):
    r = dict(item)
    rid = r.pop("id")
    o = observe(r["text"], "string")
    a = {"kind": "file", "name": r["name"], "text": r["text"][:200], "entry": "string"}
    return {"id": rid, "item": a, "init": {"x": 0}, "steps": [{"a": a, "out": "ok", "post": o}]}


def on_hang(item, fname):
    """the worker had to be killed on this row (harness/pool.py): the call did not return; a regular expression that backtracks
    for ever is one C call that no signal handler interrupts, so the SIGALRM guard above never fires for it"""
    global observe
    real = observe
    observe = lambda text, entry, **kw: {"parsed": "TIMEOUT", "class": "", "ser": "", "reparse": "", "reser": "", "cpu_ms": 10 ** 6, "n": len(text),
                                         "where": "no return: worker killed"}
    try:
        return globals()[fname](item)
    finally:
        observe = real
