"""Adapter for spec/ProfilesContract.tla <-> cssutils.profiles.Profiles (C14).
Abstract profile ids: "B" = the nine built-in profiles (registered like Profiles.__init__ does), P1..P4 custom."""
from .common import cssutils, init, outcome
import cssutils.profiles as profiles_mod

BUILTIN = None
CUSTOM = {
    # name: (properties, macros)
    "P1": ({"p1-a": "{integer}", "p1-b": "{mynew}"}, {"integer": "p1i", "mynew": "p1n"}),
    "P2": ({"p2-a": "{integer}", "p2-c": "{absolute-size}"}, {"integer": "p2i", "absolute-size": "p2s"}),
    "P3": ({"p3-b": "{mynew}", "p3-a": "{integer}"}, {"mynew": "p3n"}),
    "P4": ({"p4-a": "{integer}", "z-index": "p4z"}, {}),
    "P5": ({"p5-a": "{uri}"}, {"uri": "p5u"}),
    "P6": ({"p6-f": lambda v: v == "p6f"}, {}),               # validated by a function, not by a pattern                # shadows a TOKEN-level macro that the built-ins use too
    "P1x": ({"p1-a": "{integer}", "p1-b": "p1x"}, None),      # registered under the name P1, no macros argument at all
}
# P3 is registered under a name that CONTAINS the names of P1 and P2 (a profile name given as a single string must be compared as a
# whole, as the built-in 'CSS Fonts Module Level 3' / 'CSS Fonts Module Level 3 @font-face properties' pair requires)
REALNAME = {"P1x": "P1", "P3": "P1 and P2 extended"}
VARIANT = {}      # real name -> abstract id currently registered under it (per trace)
# probes: (id, property, candidate literals).  The accepted subset identifies the macro version a property is compiled with.
INT_LITS = ["7", "p1i", "p2i"]
NEW_LITS = ["p1n", "p3n", "p1x"]
ABS_LITS = ["xx-large", "p2s"]
URI_LITS = ["url(x)", "p5u"]
PROBES = [
    ("P1.a", "p1-a", INT_LITS), ("P1.b", "p1-b", NEW_LITS), ("P2.a", "p2-a", INT_LITS), ("P2.c", "p2-c", ABS_LITS),
    ("P3.b", "p3-b", NEW_LITS), ("P3.a", "p3-a", INT_LITS), ("P4.a", "p4-a", INT_LITS),
    ("P5.a", "p5-a", URI_LITS), ("P6.f", "p6-f", ["p6f", "7"]), ("B.bg", "background-image", URI_LITS),
    ("B.z", "z-index", INT_LITS + ["p4z"]), ("B.fs", "font-size", ABS_LITS), ("B.color", "color", ["red", "p1i"]),
    ("none", "no-such-property", ["7", "red"]),
]
REAL = {}


def builtin_batch(reg):
    P = profiles_mod.Profiles
    props, macros = profiles_mod.properties, profiles_mod.macros
    return [(n, props[n], macros[P.CSS3_FONTS if n == P.CSS3_FONT_FACE else n]) for n in
            [P.CSS_LEVEL_2, P.CSS3_BACKGROUNDS_AND_BORDERS, P.CSS3_BASIC_USER_INTERFACE, P.CSS3_BOX, P.CSS3_COLOR,
             P.CSS3_FONTS, P.CSS3_FONT_FACE, P.CSS3_PAGED_MEDIA, P.CSS3_TEXT]]


def abstract_names(reg):
    out, seenB = [], False
    builtin = {b[0] for b in builtin_batch(reg)}
    for n in reg.profiles:
        if n in builtin:
            if not seenB:
                out.append("B")
                seenB = True
        else:
            out.append(VARIANT.get(n, n))
    return out


def project(reg):
    names = abstract_names(reg)
    versions, vwp_ok, matching = [], True, []
    for pid, prop, lits in PROBES:
        acc = []
        for lit in lits:
            out, v = outcome(lambda: reg.validate(prop, lit))
            out2, w = outcome(lambda: reg.validateWithProfile(prop, lit))
            if out != "ok" or out2 != "ok":
                acc.append("EXC:%s/%s" % (out, out2))
                continue
            if bool(v) != bool(w[0]):
                vwp_ok = False
            if v:
                acc.append(lit)
                matching.append({"id": pid, "lit": lit, "m": bool(w[1])})
        versions.append({"id": pid, "accepted": acc})
    # the profiles argument given explicitly: a single name (str) and a one-element list must answer alike
    explicit = []
    for q in names:
        if q == "B":
            continue
        rq = REALNAME.get(q, q)
        for pid, prop, lits in PROBES:
            for lit in lits:
                o1, a1 = outcome(lambda: reg.validateWithProfile(prop, lit, rq))
                o2, a2 = outcome(lambda: reg.validateWithProfile(prop, lit, [rq]))
                same = o1 == o2 and (o1 != "ok" or (bool(a1[0]), bool(a1[1]), sorted(a1[2])) == (bool(a2[0]), bool(a2[1]), sorted(a2[2])))
                explicit.append({"q": q, "id": pid, "lit": lit, "valid": bool(a2[0]) if o2 == "ok" else False, "m": bool(a2[1]) if o2 == "ok" else False,
                                 "same": same, "out": o2})
    known = sorted({p for _, p, _ in PROBES if p in reg.knownNames})
    byprof = []
    for n in names:
        if n != "B":
            out, r = outcome(lambda: sorted(reg.propertiesByProfile(REALNAME.get(n, n))))
            byprof.append({"p": n, "props": r if out == "ok" else [out]})
    d = reg._defaultProfiles
    return {"names": names, "nreal": len(reg.profiles), "versions": versions, "known": known, "byprofile": byprof,
            "validateAgree": vwp_ok, "matching": matching, "explicit": explicit, "defaults": "none" if not d else (VARIANT.get(d[0], d[0]) if (d[0] in CUSTOM or d[0] in VARIANT) else "B")}


def apply(reg, a):
    op = a["op"]
    if op == "add":
        props, macros = CUSTOM[a["p"]]
        real = REALNAME.get(a["p"], a["p"])
        VARIANT[real] = a["p"]
        if macros is None:
            return outcome(lambda: reg.addProfile(real, dict(props)))
        return outcome(lambda: reg.addProfile(real, dict(props), dict(macros)))
    if op == "addbatch":
        for p in a["ps"]:
            VARIANT[REALNAME.get(p, p)] = p
        batch = [(REALNAME.get(p, p), dict(CUSTOM[p][0]), dict(CUSTOM[p][1] or {})) for p in a["ps"]]
        return outcome(lambda: reg.addProfiles(batch))
    if op == "addbuiltin":
        return outcome(lambda: reg.addProfiles(builtin_batch(reg)))
    if op == "remove":
        try:
            reg.removeProfile(REALNAME.get(a["p"], a["p"]))
            return "ok", None
        except profiles_mod.NoSuchProfileException:
            return "NoSuchProfile", None
        except Exception as e:
            return "EXC:" + type(e).__name__, None
    if op == "removeall":
        return outcome(lambda: reg.removeProfile(all=True))
    if op == "setdefaults":
        d = a["d"]
        val = None if d == "none" else (profiles_mod.Profiles.CSS_LEVEL_2 if d == "B" else REALNAME.get(d, d))
        return outcome(lambda: setattr(reg, "defaultProfiles", val))
    raise ValueError(op)


def run_trace(item):
    init()
    VARIANT.clear()
    reg = profiles_mod.Profiles(log=cssutils.log)
    tr = {"id": item["id"], "init": project(reg), "steps": []}
    actions = list(item["actions"])
    if item.get("detour") and actions:
        # a detour that leaves the CONTENTS as they are - a macro-less profile is added and removed again - right before the last
        # action: still a behaviour of the machine (two enabled actions), and whatever it leaves behind is history, not contents
        names = set()
        for a in actions[:-1]:
            if a["op"] in ("add",):
                names.add(a["p"])
            elif a["op"] == "addbatch":
                names.update(a["ps"])
            elif a["op"] == "remove":
                names.discard(a["p"])
            elif a["op"] == "removeall":
                names.clear()
        if "P4" not in names:
            actions = actions[:-1] + [{"op": "add", "p": "P4"}, {"op": "remove", "p": "P4"}] + actions[-1:]
    for a in actions:
        out, ret = apply(reg, a)
        tr["steps"].append({"a": a, "out": out, "post": project(reg)})
    return tr
