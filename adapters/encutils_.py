"""Adapter for spec/EncutilsContract.tla <-> encutils.getEncodingInfo / detectXMLEncoding / encodingByMediaType (C20)."""
import sys, io, email.message
sys.path.insert(0, __import__("os").environ.get("VERIF_REPO", "/repo"))
import encutils  # noqa: E402

MEDIA = {"appxml": ["application/xml", "Application/XML-DTD"], "appxmlplus": ["application/atom+xml", "application/xhtml+xml"],
         "textxml": ["text/xml", "text/xml-external-parsed-entity"], "textxmlplus": ["text/vnd.x+xml"], "html": ["text/html", "TEXT/HTML"],
         "css": ["text/css"], "text": ["text/plain", "text/javascript"], "other": ["image/png", "application/octet-stream", "image/svg+xml", "model/x3d+xml"]}
BOMS = {"utf-8": b"\xef\xbb\xbf", "utf_16_le": b"\xff\xfe", "utf_16_be": b"\xfe\xff"}


# the same declarations in other spellings the syntaxes allow (quotes, letter case of names, white space, further attributes)
XMLDECL = ['<?xml version="1.0" encoding="%s"?>', '<?xml version="1.0" encoding="%s" standalone="yes"?>', "<?xml version='1.0' encoding='%s'?>",
           '<?xml version="1.0"  encoding = "%s"  standalone="no" ?>']
METADECL = ['<meta http-equiv="Content-Type" content="text/html; charset=%s">', "<META HTTP-EQUIV='content-type' CONTENT='text/html;charset=%s'>",
            '<meta content="text/html; charset=%s" http-equiv="Content-Type" />', '<meta name="x" content="y"><meta http-equiv="Content-Type" content="text/html; charset=%s">']
HTTPCS = ["; charset=%s", ";charset=%s", '; charset="%s"', "; CHARSET=%s", "; charset=%s; q=1"]


class Resp:
    def __init__(self, ct):
        self.m = email.message.Message()
        if ct:
            self.m["Content-Type"] = ct

    def info(self):
        return self.m

    def read(self):
        return b""


def document(xml, meta, as_bytes, k=0):
    """a byte string; a text document is the same bytes read as latin-1 (one character per byte, as encutils' sniffers expect)"""
    head = b""
    if xml.startswith("bomdecl:"):
        _, b, e = xml.split(":")
        head = BOMS[b] + (XMLDECL[k % len(XMLDECL)] % e).encode("ascii")
    elif xml.startswith("bom:"):
        head = BOMS[xml[4:]]
    elif xml.startswith("decl:"):
        head = (XMLDECL[(k + 1) % len(XMLDECL)] % xml[5:]).encode("ascii")
    body = b"<html><head>"
    if meta != "none":
        body += (METADECL[k % len(METADECL)] % meta).encode("ascii")
    body += b"<title>t</title></head><body>x</body></html>"
    data = head + body
    return data if as_bytes else data.decode("latin-1")


def none(x):
    return "none" if x is None else x


def run_row(item):
    r = dict(item)
    rid = r.pop("id")
    a = dict(r)
    if r["kind"] == "info":
        mts = MEDIA[r["mt"]]
        ct = mts[rid % len(mts)]
        if r["http"] != "none":
            ct += HTTPCS[(rid // 2) % len(HTTPCS)] % (r["http"].upper() if rid % 3 == 0 else r["http"])
        doc = document(r["xml"], r["meta"], r["doc"] == "bytes", rid)
        try:
            e = encutils.getEncodingInfo(Resp(ct), doc)
            o = {"out": "ok", "encoding": none(e.encoding), "mismatch": "true" if e.mismatch else "false",
                 "http": none(e.http_encoding), "xml": none(e.xml_encoding), "meta": none(e.meta_encoding)}
            # documents that end inside an element whose content is raw text, inside a comment, inside a tag
            for poison in ("<html><head><style> a { left: 0 }", "<html><!-- never closed", "<html><script> if (a < b) {", "<html><meta http-equiv="):
                try:
                    encutils.getMetaInfo(poison)
                    encutils.getEncodingInfo(Resp("text/html"), poison)
                except Exception:
                    pass
            e2 = encutils.getEncodingInfo(Resp(ct), doc)
            o["stable"] = (none(e2.encoding), bool(e2.mismatch), none(e2.http_encoding), none(e2.xml_encoding), none(e2.meta_encoding)) == \
                          (o["encoding"], bool(e.mismatch), o["http"], o["xml"], o["meta"])
        except Exception as ex:
            o = {"out": "EXC:" + type(ex).__name__, "encoding": "", "mismatch": "", "http": "", "xml": "", "meta": "", "stable": True}
        a["content_type"] = ct
    elif r["kind"] == "sniff":
        doc = document(r["xml"], "none", True, rid)
        if r["short"]:
            doc = doc[:2] if r["xml"] == "none" else doc   # a document shorter than 4 units
        kw = {} if r.get("incdef", True) else {"includeDefault": False}
        try:
            if r["doc"] == "bytes":
                res, pos = encutils.detectXMLEncoding(doc, **kw), r["pos"]
            elif r["doc"] == "text":
                res, pos = encutils.detectXMLEncoding(doc.decode("latin-1"), **kw), r["pos"]
            else:
                f = io.StringIO(doc.decode("latin-1"))
                f.seek(min(r["pos"], len(doc)))
                a["pos"] = f.tell()
                res = encutils.detectXMLEncoding(f, **kw)
                pos = f.tell()
            o = {"out": "ok", "result": none(res), "pos": pos}
            if r["doc"] != "stream":
                a["pos"] = pos
        except Exception as ex:
            o = {"out": "EXC:" + type(ex).__name__, "result": "", "pos": -1}
    else:
        mts = MEDIA[r["mt"]]
        o = {"out": "ok", "result": none(encutils.encodingByMediaType(mts[rid % len(mts)]))}
    return {"id": rid, "item": a, "init": {"x": 0}, "steps": [{"a": a, "out": o["out"], "post": o}]}
