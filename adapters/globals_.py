"""Adapter for spec/GlobalsContract.tla (C12): process-wide state of cssutils around parse / serialize / reject calls.
Every trace runs in a freshly forked process; the reference ('fresh') probe results come from other fresh processes."""
import os, hashlib, json, tempfile
from .common import cssutils, outcome
import logging
import xml.dom
import cssutils.script
import cssutils.prodparser as pp

REF_SHEETS = [
    "@media screen and (min-width: 400px), print { a { color: red } }",
    "a { margin: 0 1px 2px; background: url(x.png) no-repeat; color: rgb(1, 2, 3) } /* c */ b > c, d[e=f] { top: -0.5em }",
    '@import "x.css" tv, print; @namespace p "u"; p|a { left: 0 }',
    "a { x: 1 } @media tv { b { y: 2 } } @page :first { margin: 1cm }",
]
PROFILE_BATTERY = [("color", "red"), ("color", "1px"), ("left", "1px"), ("opacity", "0.5"), ("font-size", "huge"), ("z-index", "-1"), ("orphans", "-2"),
                   ("color", "rgb(-1, 0, 300)"), ("-x-count", "3")]


VALID_SHEET = "a { opacity: 0.5; box-sizing: border-box; color: red; left: 1px; x-y: 1 }"


def good_fetcher(url):
    return None, "imported { left: 0 }"


def boom(url):
    raise RuntimeError("fetch failed")


def digest(x):
    return hashlib.sha1(json.dumps(x, sort_keys=True, default=str).encode()).hexdigest()[:12]


def custom_tokens(variant):
    """a tokenizer with its own macro set (two sets with the same names and different bodies) on a text they split differently"""
    from cssutils import cssproductions
    from cssutils.tokenize2 import Tokenizer
    macros = dict(cssproductions.MACROS)
    if variant == "B":
        macros["nmstart"] = "[a-z]|{nonascii}|{escape}"          # no underscore at the start of a name
    tk = Tokenizer(macros=macros, productions=cssproductions.PRODUCTIONS)
    return [(t[0], t[1]) for t in tk.tokenize("_x y")]


def battery():
    """parse + serialise reference texts through the public entry points -> list of strings"""
    out = []
    for v in ("A", "B"):
        o, r = outcome(lambda: custom_tokens(v))
        out.append(repr(r) if o == "ok" else o)
    # first: production-parser entry points where any token left over by an earlier call changes the result
    o, r = outcome(lambda: cssutils.css.PropertyValue("1px solid red").cssText)
    out.append(r if o == "ok" else o)
    # verdicts of the current default profiles, through the registry and through a parse
    o, r = outcome(lambda: [list(cssutils.profile.validateWithProfile(n, v)) for n, v in PROFILE_BATTERY])
    out.append(repr(r) if o == "ok" else o)
    o, r = outcome(lambda: [(p.name, p.valid) for rule in cssutils.parseString(VALID_SHEET) for p in rule.style])
    out.append(repr(r) if o == "ok" else o)
    for t in REF_SHEETS:
        o, r = outcome(lambda: cssutils.CSSParser(fetcher=good_fetcher).parseString(t).cssText.decode())
        out.append(r if o == "ok" else o)
    o, r = outcome(lambda: cssutils.parseStyle("color: red; top: 1px !important").cssText)
    out.append(r if o == "ok" else o)
    o, r = outcome(lambda: cssutils.stylesheets.MediaList("print, screen and (color)").mediaText)
    out.append(r if o == "ok" else o)
    o, r = outcome(lambda: cssutils.css.SelectorList("a, b > c").selectorText)
    out.append(r if o == "ok" else o)
    o, r = outcome(lambda: cssutils.stylesheets.MediaQuery("print").mediaText)
    out.append(r if o == "ok" else o)
    return out


def project(ser0):
    prof = cssutils.profile
    return {"mode": bool(cssutils.log.raiseExceptions), "prefs": digest(sorted(vars(cssutils.ser.prefs).items())),
            "profiles": digest([list(prof.profiles), [bool(prof.validate(n, v)) for n, v in PROFILE_BATTERY]]),
            "ser": "original" if cssutils.ser is ser0 else "other",
            "saved": len(pp.savedTokens), "pushed": len(pp.tokenizer._pushed) if hasattr(pp.tokenizer._pushed, "__len__") else -1}       # -1: an iterator of pushed-back tokens


def set_pref(v):
    cssutils.ser.prefs.useDefaults()
    if v == "minified":
        cssutils.ser.prefs.useMinified()
    elif v == "nocomments":
        cssutils.ser.prefs.keepComments = False


TEXTS = {"empty": " ", "none": "a { color: red } /* c */ @media print { b { left: 0 } }",
         "malformed": 'a { color: red } @import "late.css"; b { left: 0',
         "fetcherthrows": '@import "x.css"; a { left: 0 }',
         "pushback": "a { left: 0 } @page { @top-left {} }"}


def do_parse(parsers, a, tmpdir):
    e, f = a["entry"], a["fault"]
    p = parsers.get(a["p"]) if a["p"] != "module" else None
    if p is not None:
        p.setFetcher(boom if f == "fetcherthrows" else good_fetcher)
    text = TEXTS.get(f, TEXTS["none"])
    data = b'a { background: "\xff\xfe" }' if f == "undecodable" else text.encode("utf-8")
    if e == "module":
        return outcome(lambda: cssutils.parseString(data if f == "undecodable" else text, encoding="utf-8" if f == "undecodable" else None))
    if e == "string":
        return outcome(lambda: p.parseString(text))
    if e == "bytes":
        return outcome(lambda: p.parseString(data, encoding="utf-8"))
    if e == "style":
        st = b"left: \xff" if f == "undecodable" else ("color: }" if f == "malformed" else ("" if f == "empty" else "color: red"))
        return outcome(lambda: p.parseStyle(st))
    if e == "file":
        path = os.path.join(tmpdir, "missing.css" if f == "missingfile" else "in.css")
        if f != "missingfile":
            with open(path, "wb") as fd:
                fd.write(data)
        return outcome(lambda: p.parseFile(path, encoding="utf-8" if f == "undecodable" else None))
    if e == "url":
        return outcome(lambda: p.parseUrl("http://example.org/x.css"))
    raise ValueError(e)


def dom_edit():
    try:
        r = cssutils.css.CSSStyleRule(selectorText="a", style="left: 0")
    except Exception as e:          # building a plain rule must always work: reported, not an adapter failure
        return "EXC-building-rule:" + type(e).__name__
    try:
        r.selectorText = "a,,"
        return "logged"
    except xml.dom.DOMException:
        return "raised"


def apply(world, a):
    op = a["op"]
    if op == "newparser":
        world["parsers"][a["p"]] = cssutils.CSSParser(raiseExceptions=a["raising"], fetcher=good_fetcher)
        return "ok"
    if op == "setmode":
        cssutils.log.raiseExceptions = a["b"]
        return "ok"
    if op == "parse":
        return do_parse(world["parsers"], a, world["tmp"])[0]
    if op == "domedit":
        return dom_edit()
    if op == "mqedit":
        sheet = cssutils.parseString("@media tv, print { a { left: 0 } }")
        ml = sheet.cssRules[0].media
        return outcome(lambda: setattr(ml[0], "mediaText", "tv and (color) x"))[0]
    if op == "valueedit":
        def f():
            pv = cssutils.css.PropertyValue("1px solid")
            pv[0].cssText = "auto"         # not a dimension: rejected
        return outcome(f)[0]
    if op == "profileaddremove":
        def g():
            cssutils.profile.addProfile("x-counts", {"-x-count": "{int}"}, macros={"int": r"\d+"})
            try:
                # the profile takes effect at once: a declaration of it parsed now is valid (whatever was validated before)
                props = [p for r in cssutils.parseString("a { -x-count: 3 }") for p in r.style]
                v = cssutils.profile.validateWithProfile("-x-count", "3")
                if not (props and props[0].valid and v[0] and v[1]):
                    return "NotValidAfterAdd:%r" % (v,)
            finally:
                cssutils.profile.removeProfile("x-counts")
            return "ok"
        o, r = outcome(g)
        return r if o == "ok" else o
    if op == "serializeraises":
        def boom_validator(v):
            raise RuntimeError("validator failed")
        mode0 = cssutils.log.raiseExceptions
        cssutils.profile.addProfile("x-boom", {"-x-boom": boom_validator})
        keep = cssutils.ser.prefs.validOnly
        try:
            sheet = cssutils.CSSParser(validate=False).parseString("@media print { a { left: 0; -x-boom: 1 } }")
            cssutils.ser.prefs.validOnly = True
            cssutils.log.raiseExceptions = True          # the library-wide default outside a parse
            try:
                sheet.cssText
                res = "returned"
            except Exception:
                res = "raised"              # (cssutils wraps the validator's exception)
        finally:
            cssutils.ser.prefs.validOnly = keep
            cssutils.log.raiseExceptions = mode0
            cssutils.profile.removeProfile("x-boom")
        return res
    if op == "profileswitch":
        def h():
            prof = cssutils.profile
            prof.defaultProfiles = prof.CSS_LEVEL_2
            try:
                [prof.validateWithProfile(n, v) for n, v in PROFILE_BATTERY]
                cssutils.parseString(VALID_SHEET)
            finally:
                prof.defaultProfiles = None
        return outcome(h)[0]
    if op == "serialize":
        return outcome(lambda: cssutils.parseString(REF_SHEETS[1]).cssText)[0]
    if op == "combine":
        if a["fault"] == "missingfile":
            return outcome(lambda: cssutils.script.csscombine(path=os.path.join(world["tmp"], "nope.css")))[0]
        return outcome(lambda: cssutils.script.csscombine(cssText="a { left: 0 } b { top: 1px }", href="http://example.org/x.css",
                                                          minify=a.get("minify", True), resolveVariables=a.get("resolve", True)))[0]
    if op == "tokenizer":
        return outcome(lambda: custom_tokens(a["macros"]))[0]
    if op == "setpref":
        set_pref(a["v"])
        world["pref"] = a["v"]
        return "ok"
    if op == "probe":
        return "ok"
    raise ValueError(op)


def fresh_item(item):
    """reference results of the battery in a fresh process with the given mode and preference assignment"""
    cssutils.log.setLevel(logging.FATAL)
    cssutils.log.raiseExceptions = item["mode"]
    set_pref(item["pref"])
    return {"mode": item["mode"], "pref": item["pref"], "result": battery()}


def run_trace(item):
    cssutils.log.setLevel(logging.FATAL)
    ser0 = cssutils.ser
    world = {"parsers": {}, "pref": "default", "tmp": tempfile.mkdtemp(prefix="c12_", dir=item["tmpdir"])}
    tr = {"id": item["id"], "init": project(ser0), "steps": []}
    for a in item["actions"]:
        crashed = False
        try:
            out = apply(world, a)
        except Exception as e:          # an operation of the battery that works in a fresh process must work here too
            out, crashed = "CRASH:" + type(e).__name__, True
        ev = {"a": a, "out": out, "crashed": crashed, "post": project(ser0)}
        if a["op"] == "probe":
            ev["result"] = battery()
            ev["fresh"] = item["fresh"]["%s|%s" % (ev["post"]["mode"], world["pref"])]
            p = cssutils.CSSParser(fetcher=good_fetcher)
            ev["reuse1"] = [outcome(lambda: p.parseString(t).cssText.decode())[1] for t in REF_SHEETS]
            ev["reuse2"] = [outcome(lambda: p.parseString(t).cssText.decode())[1] for t in REF_SHEETS]
            ev["domedit"] = dom_edit()
            ev["post"] = project(ser0)
        tr["steps"].append(ev)
    return tr
