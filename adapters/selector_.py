"""Adapter for spec/SelectorContract.tla <-> cssutils.css.Selector / SelectorList (C16)."""
from .common import cssutils, init, outcome
import cssutils.css as css

OPVAL = {"~=": "includes", "|=": "dashmatch", "=": "equals", "^=": "prefixmatch", "$=": "suffixmatch", "*=": "substringmatch"}


def part_text(p, v):
    """concrete text of one abstract part in spelling variant v (dict of switches)"""
    k, n = p["k"], p["n"]
    up = v.get("upper")
    if k == "type":
        return "\\61 " if v.get("escape") else ("a")
    if k == "universal":
        return "*"
    if k == "id":
        return "#i"
    if k == "class":
        return ".\\63 " if v.get("escape") else ".c"
    if k == "attr":
        sp = " " if v.get("ws") else ""
        if n == "exists":
            return "[%sb%s]" % (sp, sp)
        val = '""' if v.get("emptyval") else ('"v"' if v.get("quote") else "v")      # the empty string is a value too
        return "[%sb%s%s%s%s%s]" % (sp, sp, n, sp, val, sp)
    if k == "pclass":
        return ":HOVER" if up else ":hover"
    if k == "fpclass":
        name = n.upper() if up else n
        sp = " " if v.get("ws") else ""
        return ":%s(%s%s%s)" % (name, sp, p["arg"], sp)
    if k == "pel":
        if n.endswith(")"):
            name, arg = n[:-1].split("(")
            sp = " " if v.get("ws") else ""
            return "%s(%s%s%s)" % (name.upper() if up else name, sp, arg, sp)
        return n.upper() if up else n
    if k == "not":
        sp = " " if v.get("ws") else ""
        return "%s(%s%s%s)" % (":NOT" if up else ":not", sp, part_text(p["arg"], v), sp)
    if k == "comb":
        c = n
        if c == " ":
            return " /*c*/ " if v.get("comment") else ("\n\t" if v.get("ws") else " ")
        if v.get("comment"):
            return "/*c*/%s/*d*/" % c
        return " %s " % c if v.get("ws") else c
    raise ValueError(k)


# texts that are no selector, each for a different reason (the last ones only because of a misplaced universal selector)
BAD_SELECTORS = ["x#y#z.k >", "$", "x#y.k*", "x:not(#y*)", "x#y.k,,"]
BAD_MEMBERS = ["$", "r*", "a:not(b*)", "#i*"]
VARIANTS = [{}, {"ws": True}, {"upper": True}, {"comment": True, "quote": True}, {"escape": True, "ws": True, "upper": True}, {"emptyval": True}]


def project(sel):
    """abstract part sequence of a parsed Selector (from its public item sequence)"""
    out, i, items = [], 0, [(it.type, it.value) for it in sel.seq if it.type not in ("COMMENT",)]

    def simple(j):
        t, v = items[j]
        if t in ("type-selector", "negation-type-selector"):
            return {"k": "type", "n": v[1].lower(), "arg": ""}, j + 1
        if t == "universal":
            return {"k": "universal", "n": "*", "arg": ""}, j + 1
        if t == "id":
            return {"k": "id", "n": v[1:], "arg": ""}, j + 1
        if t == "class":
            return {"k": "class", "n": v[1:], "arg": ""}, j + 1
        if t == "attribute-start":
            j += 1
            op = "exists"
            while items[j][0] != "attribute-end":
                if items[j][0] in OPVAL.values():
                    op = items[j][1]
                j += 1
            return {"k": "attr", "n": op, "arg": ""}, j + 1
        if t == "pseudo-class":
            if v.endswith("("):
                j += 1
                arg = ""
                while items[j][0] != "function-end":
                    if items[j][0] != "S":
                        arg += items[j][1]
                    j += 1
                return {"k": "fpclass", "n": v[1:-1], "arg": arg}, j + 1
            return {"k": "pclass", "n": v[1:], "arg": ""}, j + 1
        if t == "pseudo-element":
            if v.endswith("("):
                j += 1
                arg = ""
                while items[j][0] != "function-end":
                    if items[j][0] != "S":
                        arg += items[j][1]
                    j += 1
                return {"k": "pel", "n": v.lower() + arg + ")", "arg": ""}, j + 1
            return {"k": "pel", "n": v, "arg": ""}, j + 1
        return {"k": "?" + t, "n": str(v), "arg": ""}, j + 1

    while i < len(items):
        t, v = items[i]
        if t == "negation-start":
            arg, j = simple(i + 1)
            while items[j][0] != "negation-end":
                j += 1
            out.append({"k": "not", "n": "not", "arg": arg})
            i = j + 1
        elif t in ("child", "adjacent-sibling", "following-sibling", "descendant"):
            out.append({"k": "comb", "n": v.strip() or " ", "arg": ""})
            i += 1
        elif t == "S":
            i += 1
        else:
            p, i = simple(i)
            out.append(p)
    return out


def run_row(item):
    init()
    r = dict(item)
    rid = r.pop("id")
    spellings = []
    for v in VARIANTS:
        text = "".join(part_text(p, v) for p in r["parts"])
        def f():
            s = css.Selector(text)
            spec = list(s.specificity)
            ser = s.selectorText
            s2 = css.Selector(ser)
            sheet = cssutils.parseString(text + " { left: 0 }")
            s3 = sheet.cssRules[0].selectorList[0]
            # a rejected assignment (logging mode: nothing is raised) must not leave a specificity that belongs to another text
            cssutils.log.raiseExceptions = False
            try:
                s.selectorText = BAD_SELECTORS[(rid + len(text)) % len(BAD_SELECTORS)]
            except Exception:
                pass
            # ... and one made through the rule (a list in which one member is no selector) leaves the rule's list as it was
            rule = sheet.cssRules[0]
            before = rule.selectorText
            try:
                rule.selectorText = "%s, %s" % (text, BAD_SELECTORS[(rid + len(text)) % len(BAD_SELECTORS)])
            except Exception:
                pass
            cssutils.log.raiseExceptions = True
            if rule.selectorText != before or sheet.cssRules.length != 1 or sheet.cssText != cssutils.parseString(text + " { left: 0 }").cssText:
                return {"out": "RejectedRuleSelectorTextChangedTheRule:%r" % rule.selectorText, "text": text}
            return {"out": "ok", "text": text, "spec": spec, "respec": list(s2.specificity), "sheetspec": list(s3.specificity),
                    "parts": project(s2), "parts0": project(css.Selector(text)), "ser": ser, "rejtext": s.selectorText, "rejspec": list(s.specificity)}
        out, o = outcome(f)
        if out == "ok" and o["out"] != "ok":
            out = o["out"]
        spellings.append(o if out == "ok" else {"out": out, "text": text, "spec": [], "respec": [], "sheetspec": [], "parts": [], "parts0": [], "ser": "", "rejtext": "", "rejspec": []})
    return {"id": rid, "item": r, "init": {"x": 0}, "steps": [{"a": r, "out": "ok", "post": {"spellings": spellings}}]}


# ---- selector lists ------------------------------------------------------------------------------------------
def sel_text(s):
    return "a,, $" if s == "#bad" else s


NS = {"p": "u"}


def ns_text(s, prefix):
    """the selector with every type name written with a namespace prefix: 'b > c' -> 'p|b > p|c'"""
    return " ".join(prefix + "|" + w if w.isalpha() else w for w in s.split(" "))


def proj_list(sl, foreign=False):
    # foreign variant: every name is written with the list's own prefix for the namespace; any other prefix stays visible
    return [s.selectorText.replace("p|", "") if foreign else s.selectorText for s in sl]


def project_list(sl, foreign=False):
    def rep():
        if not sl.length:
            return []
        return proj_list(css.SelectorList(selectorText=(sl.selectorText, NS) if foreign else sl.selectorText), foreign)
    out, r = outcome(rep)
    o = {"list": proj_list(sl, foreign), "length": sl.length, "reparsed": r if out == "ok" else ["#" + out], "text": sl.selectorText}
    if foreign and any(x.parent is not sl for x in sl):
        o["reparsed"] = ["#member names another list as parent"]
    return o


def run_list_trace(item):
    init()
    foreign = bool(item.get("foreign"))
    if foreign:
        # the list belongs to a sheet that binds prefix p; members arrive as Selector OBJECTS taken from a second sheet that
        # binds the same namespace to prefix x (same denotation, other spelling, already owned by another list)
        sheet = cssutils.parseString('@namespace p "u"; p|zz { left: 0 }')
        sl = css.SelectorList(parentRule=sheet.cssRules[1])
    else:
        sl = css.SelectorList()

    def member(s):
        if s == "#bad":
            return BAD_MEMBERS[item["id"] % len(BAD_MEMBERS)]
        if not foreign:
            return s
        donor = cssutils.parseString('@namespace x "u"; %s { left: 0 }' % ns_text(s, "x"))
        return donor.cssRules[1].selectorList[0]
    tr = {"id": item["id"], "init": project_list(sl, foreign), "steps": []}
    for a in item["actions"]:
        cssutils.log.raiseExceptions = a["mode"] == "raise"
        bad = BAD_MEMBERS[item["id"] % len(BAD_MEMBERS)]
        if a["op"] == "append":
            out, _ = outcome(lambda: sl.appendSelector(member(a["s"])))
        elif a["op"] == "setitem":
            # the place named from the front or (every second time) from the end
            idx = a["i"] - 1 if (item["id"] + a["i"]) % 2 else a["i"] - 1 - sl.length
            out, _ = outcome(lambda: sl.__setitem__(idx, member(a["s"])))
        else:
            out, _ = outcome(lambda: setattr(sl, "selectorText", ", ".join(bad if s == "#bad" else (ns_text(s, "p") if foreign else s) for s in a["ss"])))
        cssutils.log.raiseExceptions = True
        tr["steps"].append({"a": a, "out": out, "post": project_list(sl, foreign)})
    return tr
