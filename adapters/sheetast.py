"""Adapter for spec/SheetASTContract.tla (C02, and the DOM projection shared by C03 / C04 / C06 / C01):
render(ast, spelling vector) -> CSS text;  project(sheet) -> abstract sheet through public accessors."""
import re
from .common import cssutils, init, outcome
import cssutils.css as css

# ---- spelling vectors -------------------------------------------------------------------------------------------------
VECTORS = [
    {"id": "canonical", "calcop": "both", "ws": " ", "cm": False, "case": "lower", "quote": '"', "url": "bare", "esc": "none", "imp": "!important", "lastsemi": False, "eof": False, "num": "plain"},
    {"id": "minimal", "calcop": "none", "ws": "", "cm": False, "case": "lower", "quote": "'", "url": "dq", "esc": "none", "imp": "!important", "lastsemi": True, "eof": False, "num": "nolead"},
    {"id": "upper-nl", "calcop": "before", "ws": "\n\t", "cm": False, "case": "upper", "quote": '"', "url": "sq", "esc": "none", "imp": "! IMPORTANT", "lastsemi": True, "eof": False, "num": "plain"},
    {"id": "comments", "calcop": "after", "ws": " ", "cm": True, "case": "mixed", "quote": "'", "url": "pad", "esc": "simple", "imp": "!/**/important", "lastsemi": False, "eof": False, "num": "trail0"},
    {"id": "crlf-hex", "calcop": "before", "ws": "\r\n\f ", "cm": False, "case": "lower", "quote": '"', "url": "padcrff", "esc": "hex", "imp": "!important", "lastsemi": False, "eof": True, "num": "plain"},
    {"id": "tab-upper-cm", "calcop": "after", "ws": "\t", "cm": True, "case": "upper", "quote": '"', "url": "dq", "esc": "hex6", "imp": "!IMPORTANT", "lastsemi": True, "eof": True, "num": "plain", "cm2": True},
]


def case(s, v):
    if v["case"] == "upper":
        return s.upper()
    if v["case"] == "mixed":
        return "".join(c.upper() if i % 2 else c for i, c in enumerate(s))
    return s


def escape_name(n, v, hexonly=False):
    """escape one ordinary (non-hex-digit-sensitive) character of a name; hexonly: positions where cssutils keeps a simple
    escape as written (selectors, values) - same denotation, but not the string the projection compares"""
    if v["esc"] == "none" or not n or (hexonly and v["esc"] == "simple"):
        return n
    for i, c in enumerate(n):
        if c.isalpha():
            if v["esc"] == "simple":
                if c.lower() in "abcdef":
                    continue
                return n[:i] + "\\" + c + n[i + 1:]
            hx = "%x" % ord(c)
            return n[:i] + ("\\%s " % hx if v["esc"] == "hex" else "\\%06x" % ord(c)) + n[i + 1:]
    return n


def W(v, must=False):
    w = v["ws"]
    if must and not w:
        w = " "
    return w


def CM(v):
    return "/*x*/" if v["cm"] else ""


def num_text(n, v):
    """a number between -1 and 1 may be written without the leading zero or with trailing zeros"""
    m = re.match(r"^(-?)0\.([0-9]+)$", n)
    if m and v["num"] == "nolead":
        return m.group(1) + "." + m.group(2)
    if m and v["num"] == "trail0":
        return n + "0"
    return n


def comp_text(c, v):
    t, x = c["t"], c["x"]
    if t in ("DIMENSION", "PERCENTAGE"):
        m = re.match(r"^([-+]?[0-9.]+)(.*)$", x)
        return num_text(m.group(1), v) + case(m.group(2), v)
    if t == "NUMBER":
        return num_text(x, v)
    if t == "COLOR_VALUE" and x.startswith("#") and v.get("hash") == "long" and len(x) == 4:
        return "#" + "".join(c * 2 for c in x[1:])
    if t == "COLOR_VALUE" and x.startswith("#") and v["esc"] in ("hex", "hex6"):
        return "#" + escape_name(x[1:], v, hexonly=True)           # a hex escape inside the hash token: same colour
    if t == "COLOR_VALUE" and "(" in x:
        name, args = x.split("(", 1)                       # rgb( / hsla(: the name is case-insensitive, the commas may have white space
        return case(name, v) + "(" + W(v) + args[:-1].replace(", ", W(v) + "," + W(v)) + W(v) + ")"
    if t in ("IDENT", "COLOR_VALUE") and re.match(r"^[a-z]+$", x):
        return escape_name(x, v, hexonly=True)
    if t == "STRING":
        return v["quote"] + x[1:-1] + v["quote"]
    if t == "URI":
        inner = x[4:-1]
        form = {"bare": inner, "dq": '"%s"' % inner, "sq": "'%s'" % inner, "pad": " %s " % inner, "padcrff": '\r\n"%s"\f' % inner}[v["url"]]
        return case("url", v) + "(" + form + ")"
    if t == "FUNCTION":
        name, args = x.split("(", 1)
        if args.startswith("calc("):
            return case(name, v) + "(" + W(v) + comp_text({"t": "CALC", "x": args[:-1]}, v) + W(v) + ")"
        return case(name, v) + "(" + args.replace(", ", W(v) + "," + W(v))
    if t == "CALC":
        # + and - need white space on both sides; * and / may have it before, after, on both sides or not at all
        inner = x[5:-1]
        around = {"both": (" ", " "), "none": ("", ""), "before": (" ", ""), "after": ("", " ")}[v.get("calcop", "both")]
        inner = re.sub(r" ([*/]) ", lambda m: around[0] + m.group(1) + around[1], inner)
        return case("calc", v) + "(" + W(v) + inner + W(v) + ")"
    return x


def value_text(val, v):
    out = ""
    prev = None
    for c in val:
        if c["t"] == "op":
            # "a /*x*/ , b": with comment parsing off the comment must go and the white space on both its sides is one
            # (vector tab-upper-cm: TWO comments with white space between them - every run of white space and comments is one space)
            out += (W(v, True) + CM(v) + W(v, True) + (CM(v) + W(v, True) if v.get("cm2") else "") if v["cm"] else W(v)) + c["x"] + W(v)
        else:
            if prev is not None and prev["t"] != "op":
                out += W(v, True) + (CM(v) + W(v, True) if v["cm"] else "")
            out += comp_text(c, v)
        prev = c
    return out


def body_text(body, v):
    parts = []
    for it in body:
        if it["k"] == "comment":
            parts.append(("c", it["text"]))
        elif it["k"] == "unknown":
            parts.append(("u", it["text"]))         # an at-rule statement inside the block; it brings its own ';'
        else:
            name = escape_name(case(it["name"], v), v)
            txt = name + W(v) + CM(v) + ":" + W(v) + value_text(it["value"], v)
            if it["prio"]:
                txt += W(v) + (case(v["imp"], v) if v["imp"] == "!important" else v["imp"])
            parts.append(("d", txt))
    out = ""
    for i, (k, t) in enumerate(parts):
        out += W(v) + t
        later = bool(parts[i + 1:])      # a comment after a declaration belongs to the block only after a semicolon
        if k == "d" and (later or v["lastsemi"]):
            out += W(v) + ";"
    return out + W(v)


def sel_text(s, v):
    # an escape inside id and class names (the name is what the escape decodes to)
    s = re.sub(r"(?<![a-z0-9])([#.])([a-z]+)", lambda m: m.group(1) + escape_name(m.group(2), v, hexonly=True), s)
    s = re.sub(r"(:{1,2})([a-z-]+)", lambda m: m.group(1) + case(m.group(2), v), s)
    s = re.sub(r" ([>+~]) ", lambda m: W(v) + m.group(1) + W(v), s)
    if v["ws"] and v["ws"] != " ":
        s = re.sub(r"(?<=[a-z*\]\)]) (?=[a-z*.#\[:])", v["ws"] if v["ws"].strip() == "" else " ", s)
    return s


def block(inner, v, last):
    return W(v) + "{" + inner + ("" if (last and v["eof"]) else "}")


def rule_text(r, v, last=False):
    k = r["k"]
    if k == "style":
        return (W(v) + "," + W(v)).join(sel_text(s, v) for s in r["sels"]) + block(body_text(r["body"], v), v, last)
    if k == "comment":
        return r["text"]
    if k == "charset":
        return '@charset "%s";' % r["enc"]
    if k == "import":
        t = case("@import", v) + W(v, True)
        t += (v["quote"] + r["href"] + v["quote"]) if r["hreftype"] == "string" else comp_text({"t": "URI", "x": "url(%s)" % r["href"]}, v)
        if r["queries"]:
            t += W(v, True) + (W(v) + "," + W(v)).join(r["queries"])
        if r["name"] != "none":
            t += W(v, True) + v["quote"] + r["name"] + v["quote"]
        return t + W(v) + ";"
    if k == "namespace":
        # the namespace name as string or as url() (two of the six spelling vectors)
        uri = comp_text({"t": "URI", "x": "url(%s)" % r["uri"]}, v) if v["id"] in ("comments", "tab-upper-cm") else v["quote"] + r["uri"] + v["quote"]
        return case("@namespace", v) + (W(v, True) + r["prefix"] if r["prefix"] else "") + W(v, True) + uri + W(v) + ";"
    if k == "page":
        inner = body_text(r["body"], v)
        if r["margins"]:
            if not inner.rstrip().endswith(";") and any(i["k"] == "decl" for i in r["body"]):
                inner = inner.rstrip() + ";" if inner.strip() else inner
            for m in r["margins"]:
                inner += W(v) + case(m["name"], v) + W(v) + "{" + body_text(m["body"], v) + "}"
            inner += W(v)
        return case("@page", v) + (W(v, True) + r["sel"] if r["sel"] else "") + block(inner, v, last)
    if k == "fontface":
        return case("@font-face", v) + block(body_text(r["body"], v), v, last)
    if k == "media":
        inner = "".join(W(v) + rule_text(x, v) for x in r["rules"]) + W(v)
        return case("@media", v) + W(v, True) + (W(v) + "," + W(v)).join(r["queries"]) + block(inner, v, last)
    if k in ("unknown", "variables"):
        return r["text"]
    raise ValueError(k)


def render(ast, v):
    out = ""
    for i, r in enumerate(ast):
        out += rule_text(r, v, last=(i == len(ast) - 1)) + (W(v, True) if i < len(ast) - 1 else "")
    return out


# ---- projection -----------------------------------------------------------------------------------------------------
def comps(pv):
    out = []
    for it in pv.seq:
        val = it.value
        if isinstance(val, css.CSSComment):
            continue
        if it.type == "operator":
            out.append({"t": "op", "x": val})
        elif isinstance(val, css.CSSVariable):
            # read from the object's attributes, not from its serialisation (which preferences and the serializer decide)
            fb = getattr(val, "fallback", None)
            out.append({"t": "VARIABLE", "x": "var(%s%s)" % (val.name, ", " + fb.cssText if fb is not None else "")})
        elif hasattr(val, "cssText"):
            t, x = getattr(val, "type", it.type), val.cssText
            if t == "DIMENSION" and (x in ("0", "-0", "+0") or (re.match(r"^[-+]?0*\.?0+[a-z]+$", x.lower()) and not re.match(r".*(deg|rad|grad|s|hz)$", x.lower()))):
                t, x = "NUMBER", "0"       # a zero length is written unit-less (C18): same denotation
            out.append({"t": t, "x": x})
        else:
            out.append({"t": str(it.type), "x": str(val)})
    return out


def body_of(style):
    out = []
    for it in style.seq:
        val = it.value
        if isinstance(val, css.CSSComment):
            out.append({"k": "comment", "text": val.cssText})
        elif isinstance(val, css.Property):
            out.append({"k": "decl", "name": val.name, "value": comps(val.propertyValue), "prio": val.priority})
        elif isinstance(val, css.CSSUnknownRule):
            out.append({"k": "unknown", "text": re.sub(r"\s+", " ", val.cssText).strip()})
        else:
            out.append({"k": "?" + str(it.type), "text": str(getattr(val, "cssText", val))})
    return out


def var_comps(text):
    try:
        return comps(css.PropertyValue(cssText=text))
    except Exception as e:      # a variable without a parsable value: reported as such, judged by the contract
        return [{"t": "#unparsable:" + type(e).__name__, "x": str(text)}]


def query_text(m):
    """text of one media query; a comment next to it is not part of the query (where a comment inside a prelude is kept is not
    something the DOM distinguishes)"""
    return re.sub(r"\s+", " ", re.sub(r"/\*.*?\*/", " ", getattr(m, "value", m).mediaText, flags=re.S)).strip()


def project_rule(r):
    t = r.typeString
    if t == "STYLE_RULE":
        return {"k": "style", "sels": [s.selectorText for s in r.selectorList], "body": body_of(r.style)}
    if t == "COMMENT":
        return {"k": "comment", "text": r.cssText}
    if t == "CHARSET_RULE":
        return {"k": "charset", "enc": r.encoding}
    if t == "IMPORT_RULE":
        return {"k": "import", "href": r.href, "hreftype": r.hreftype or ("uri" if r.cssText.lower().startswith("@import url(") else "string"), "queries": [q for q in [query_text(m) for m in r.media] if q != "all"],   # no media = all media
                "name": r.name if r.name else "none"}
    if t == "NAMESPACE_RULE":
        return {"k": "namespace", "prefix": r.prefix, "uri": r.namespaceURI}
    if t == "PAGE_RULE":
        return {"k": "page", "sel": r.selectorText, "body": body_of(r.style), "margins": [({"name": m.margin, "body": body_of(m.style)} if m.typeString == "MARGIN_RULE" else project_rule(m)) for m in r.cssRules]}
    if t == "FONT_FACE_RULE":
        return {"k": "fontface", "body": body_of(r.style)}
    if t == "MEDIA_RULE":
        return {"k": "media", "queries": [query_text(m) for m in r.media], "rules": [project_rule(x) for x in r.cssRules]}
    if t == "UNKNOWN_RULE":
        return {"k": "unknown", "text": re.sub(r"\s+", " ", r.cssText).strip()}
    if t == "MARGIN_RULE":
        return {"k": "margin", "name": r.margin, "body": body_of(r.style)}
    if t == "VARIABLES_RULE":
        return {"k": "variables", "text": re.sub(r"\s+", " ", r.cssText).strip(),
                "vars": [{"name": n, "value": var_comps(r.variables.getVariableValue(n))} for n in r.variables.keys()]}
    return {"k": "?" + t}


def project(sheet):
    return [project_rule(r) for r in sheet.cssRules]


def fetcher(url):
    return None, "/* imported */"


def parse(text, **kw):
    p = cssutils.CSSParser(fetcher=fetcher, **{k: v for k, v in kw.items() if k in ("parseComments",)})
    s = p.parseString(text, **{k: v for k, v in kw.items() if k in ("validate",)})
    cssutils.log.raiseExceptions = True
    return s


def run_row(item):
    init()
    r = dict(item)
    rid = r.pop("id")
    ast = r["ast"]
    spellings = []
    for v in VECTORS:
        text = render(ast, v)
        def f():
            return {"out": "ok", "vector": v["id"], "text": text, "dom": project(parse(text)),
                    "nocomments": project(parse(text, parseComments=False)), "novalidate": project(parse(text, validate=False))}
        out, o = outcome(f)
        spellings.append(o if out == "ok" else {"out": out, "vector": v["id"], "text": text, "dom": [], "nocomments": [], "novalidate": []})
    return {"id": rid, "item": {"kind": "sheet", "canonical": render(ast, VECTORS[0])}, "init": {"x": 0},
            "steps": [{"a": r, "out": "ok", "post": {"spellings": spellings}}]}
