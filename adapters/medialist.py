"""Adapter for spec/MediaListContract.tla <-> cssutils.stylesheets.MediaList (C17, C11).
Owners: stand-alone list, the list of an @media rule, the list of an @import rule."""
import re
from .common import cssutils, init, outcome
from cssutils.stylesheets import MediaList

BAD_TEXTS = {"#bad:dimension": "3d", "#bad:dangling-and": "screen and", "#bad:lone-not": "not",
             "#bad:two-types": "print screen", "#bad:open-paren": "screen and (color"}


def qtext(q, k=0):
    return BAD_TEXTS.get(q, q)


def norm(t):
    return re.sub(r"\s+", " ", t.strip()).lower()


def queries(ml):
    # iteration yields the list's items; an item's value is the MediaQuery
    out = []
    for it in ml:
        mq = getattr(it, "value", it)
        out.append(norm(mq.mediaText))
    return out


def reparse(text):
    out, r = outcome(lambda: queries(MediaList(mediaText=text)))
    return r if out == "ok" else ["#unparsable:" + out]


def project(ml, owner, rule):
    n = ml.length
    items = []
    for i in range(n):
        out, r = outcome(lambda i=i: ml.item(i))
        items.append(norm(r) if out == "ok" and isinstance(r, str) else ("none" if out == "ok" else out))
    out, past = outcome(lambda: ml.item(n))
    text = ml.mediaText
    o = {"list": queries(ml), "length": n, "items": items,
         "itemPast": "none" if (out == "ok" and past is None) else (norm(past) if out == "ok" else out),
         "text": norm(text), "reparsed": reparse(text), "owner": owner, "ownertext": "none"}
    if rule is not None:
        o["ownertext"] = norm(rule.media.mediaText)
    return o


def make(owner):
    if owner == "media":
        sheet = cssutils.parseString("@media all { a { left: 0 } }")
        rule = sheet.cssRules[0]
        ml = rule.media
        ml.deleteMedium("all")
        return ml, rule
    if owner == "import":
        sheet = cssutils.parseString('@import "x.css" all;')
        rule = sheet.cssRules[0]
        ml = rule.media
        ml.deleteMedium("all")
        return ml, rule
    return MediaList(), None


def apply(ml, a, k):
    op = a["op"]
    if op == "settext":
        t = ", ".join(qtext(q, k) for q in a["qs"])
        if a.get("comment"):
            t = "/*c*/ " + t
        return outcome(lambda: setattr(ml, "mediaText", t))
    if op == "append":
        return outcome(lambda: ml.appendMedium(qtext(a["q"], k)))
    if op == "delete":
        return outcome(lambda: ml.deleteMedium(a["q"]))
    if op == "setitem":
        return outcome(lambda: ml.__setitem__(a["i"] - 1, qtext(a["q"], k)))
    raise ValueError(op)


def run_trace(item):
    init()
    owner = item.get("owner", "none")
    mode = item.get("mode", "raise")
    ml, rule = make(owner)
    cssutils.log.raiseExceptions = (mode == "raise")
    tr = {"id": item["id"], "owner": owner, "init": project(ml, owner, rule), "steps": []}
    for k, a in enumerate(item["actions"]):
        out, ret = apply(ml, a, k + item["id"])
        tr["steps"].append({"a": a, "out": out, "mode": mode, "ret": str(ret) if ret is not None else "", "post": project(ml, owner, rule)})
    return tr
