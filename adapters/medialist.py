"""Adapter for spec/MediaListContract.tla <-> cssutils.stylesheets.MediaList (C17, C11).
Owners: stand-alone list, the list of an @media rule, the list of an @import rule."""
import re
from .common import cssutils, init, outcome
from cssutils.stylesheets import MediaList

BAD_TEXTS = {"#bad:dimension": "3d", "#bad:dangling-and": "screen and", "#bad:lone-not": "not",
             "#bad:two-types": "print screen", "#bad:open-paren": "screen and (color"}


def qtext(q, k=0):
    """text of a query; the keyword 'and' in other spellings the grammar allows (case-insensitive, white space optional before '(')"""
    t = BAD_TEXTS.get(q, q)
    if q not in BAD_TEXTS and " and (" in t:
        t = t.replace(" and (", [" and (", " AND(", " And (", " and("][k % 4])
    return t


def norm(t):
    # a comment next to a query is not part of the query (which neighbour a comment in a prelude is kept with is not something the
    # DOM distinguishes)
    t = re.sub(r"/\*.*?\*/", " ", t)
    return re.sub(r"\s+", " ", t.strip()).lower()


def queries(ml):
    # iteration yields the list's items; an item's value is the MediaQuery
    out = []
    for it in ml:
        mq = getattr(it, "value", it)
        out.append(norm(mq.mediaText))
    return out


def reparse(text):
    out, r = outcome(lambda: queries(MediaList(mediaText=text)))
    return r if out == "ok" else ["#unparsable:" + out]


def project(ml, owner, rule):
    n = ml.length
    items = []
    for i in range(n):
        out, r = outcome(lambda i=i: ml.item(i))
        items.append(norm(r) if out == "ok" and isinstance(r, str) else ("none" if out == "ok" else out))
    out, past = outcome(lambda: ml.item(n))
    text = ml.mediaText
    o = {"list": queries(ml), "length": n, "items": items,
         "itemPast": "none" if (out == "ok" and past is None) else (norm(past) if out == "ok" else out),
         "text": norm(text), "reparsed": reparse(text), "owner": owner, "ownertext": "none"}
    if rule is not None:
        # what the OWNER writes for its list: read back from the rule's own serialisation
        def owner_media():
            r2 = cssutils.parseString(rule.cssText).cssRules[0]
            return r2.media.mediaText
        out2, mt = outcome(owner_media)
        cssutils.log.raiseExceptions = RAISE[0]
        o["ownertext"] = norm(mt) if out2 == "ok" else "#" + out2
        if norm(rule.media.mediaText) != o["text"]:
            o["ownertext"] = "#rule.media is another list: " + norm(rule.media.mediaText)
    return o


RAISE = [True]
VIAQUERY = [False]


def make(owner):
    if owner == "import-reassigned":
        # the rule's list is assigned again with the text it already has (a new list object), then edited in place through the rule
        sheet = cssutils.parseString('@import "x.css" all;')
        rule = sheet.cssRules[0]
        rule.media = rule.media.mediaText
        ml = rule.media
        ml.deleteMedium("all")
        return ml, rule
    if owner == "media-reassigned":
        sheet = cssutils.parseString("@media all { a { left: 0 } }")
        rule = sheet.cssRules[0]
        rule.media = MediaList(mediaText=rule.media.mediaText)
        ml = rule.media
        ml.deleteMedium("all")
        return ml, rule
    if owner == "media":
        sheet = cssutils.parseString("@media all { a { left: 0 } }")
        rule = sheet.cssRules[0]
        ml = rule.media
        ml.deleteMedium("all")
        return ml, rule
    if owner == "import":
        sheet = cssutils.parseString('@import "x.css" all;')
        rule = sheet.cssRules[0]
        ml = rule.media
        ml.deleteMedium("all")
        return ml, rule
    return MediaList(), None


def apply(ml, a, k):
    op = a["op"]
    if op == "settext":
        t = ", ".join(qtext(q, k) for q in a["qs"])
        if a.get("comment"):
            # in front of the list, or between two queries (directly after a comma)
            t = "/*c*/ " + t if (k % 2 == 0 or ", " not in t) else t.replace(", ", ", /*c*/ ", 1)
        return outcome(lambda: setattr(ml, "mediaText", t))
    if op == "append":
        return outcome(lambda: ml.appendMedium(qtext(a["q"], k)))
    if op == "delete":
        return outcome(lambda: ml.deleteMedium(a["q"]))
    if op == "setitem":
        if VIAQUERY[0] and a["q"] in BAD_TEXTS:
            # variant: the malformed text is assigned to the QUERY OBJECT taken out of the list (its own mediaText setter)
            mqs = [getattr(it, "value", it) for it in ml]
            return outcome(lambda: setattr(mqs[a["i"] - 1], "mediaText", qtext(a["q"], k)))
        return outcome(lambda: ml.__setitem__(a["i"] - 1, qtext(a["q"], k)))
    raise ValueError(op)


def run_trace(item):
    init()
    owner = item.get("owner", "none")
    mode = item.get("mode", "raise")
    VIAQUERY[0] = bool(item.get("viaquery"))
    ml, rule = make(owner)
    cssutils.log.raiseExceptions = RAISE[0] = (mode == "raise")
    tr = {"id": item["id"], "owner": owner, "init": project(ml, owner, rule), "steps": []}
    for k, a in enumerate(item["actions"]):
        out, ret = apply(ml, a, k + item["id"])
        tr["steps"].append({"a": a, "out": out, "mode": mode, "ret": str(ret) if ret is not None else "", "post": project(ml, owner, rule)})
    return tr
