"""Adapter for spec/ValuesContract.tla (C18): numbers, colours, component lists through PropertyValue and a sheet round trip."""
import re
from .common import cssutils, init, outcome
import cssutils.css as css

HEX = "0123456789abcdef"
NUM = re.compile(r"^([+-]?)(\d*)(?:\.(\d+))?([a-z%]*)$", re.I)


def split_literal(text):
    """lexical split of a serialised numeric literal into sign / integer digits / fraction digits / unit"""
    m = NUM.match(text.strip())
    if not m:
        return {"sign": "?", "int": [], "frac": [], "unit": "?" + text}
    return {"sign": m.group(1), "int": [int(c) for c in m.group(2)], "frac": [int(c) for c in (m.group(3) or "")], "unit": m.group(4).lower()}


def float_digits(x):
    """a typed numeric value as exact decimal digits (repr of ints / floats; at most 15 significant digits are meaningful)"""
    if isinstance(x, int):
        t = str(x)
    else:
        t = format(x, ".15g")
        if "e" in t or "E" in t:
            t = format(x, ".20f").rstrip("0")
    return split_literal(t)


def literal(n):
    t = n["sign"] + "".join(map(str, n["int"]))
    if n["frac"]:
        t += "." + "".join(map(str, n["frac"]))
    return t + n["unit"]


def run_number(r):
    text = literal(r["n"])
    cssutils.ser.prefs.useDefaults()
    cssutils.ser.prefs.omitLeadingZero = r["olz"]

    def f():
        pv = css.PropertyValue(text)
        v = pv[0]
        ser = pv.cssText
        sheet = cssutils.parseString("a { left: %s }" % text)
        ser2 = sheet.cssRules[0].style.getPropertyValue("left")
        s2 = cssutils.parseString(sheet.cssText)
        reser = s2.cssRules[0].style.getPropertyValue("left")
        # the same literal given to a value object that held another one (with another unit, or with one at all)
        for prior in ("3px", "7", "50%", "-0.5em", "+.25%", "-7"):
            w = css.PropertyValue(prior)[0]
            _ = (w.value, w.dimension, w.cssText)
            w.cssText = text
            if (w.value, w.dimension, w.cssText, w.type) != (v.value, v.dimension, v.cssText, v.type):
                return {"out": "EXC:ReassignedValueDiffersFromFresh", "text": text, "ser": split_literal(w.cssText), "reser": split_literal(reser),
                        "typed": dict(float_digits(v.value), unit=""), "dimension": (w.dimension or "").lower(), "sertext": w.cssText}
        return {"out": "ok" if ser == ser2 else "EXC:SheetAndValueDisagree", "text": text, "ser": split_literal(ser), "reser": split_literal(reser),
                "typed": dict(float_digits(v.value), unit=""), "dimension": (v.dimension or "").lower(), "sertext": ser}
    out, o = outcome(f)
    cssutils.ser.prefs.useDefaults()
    if out != "ok":
        z = {"sign": "", "int": [], "frac": [], "unit": ""}
        o = {"out": out, "text": text, "ser": z, "reser": z, "typed": z, "dimension": "", "sertext": ""}
    o["typed"]["unit"] = ""
    return o


def hashtext(h, upper=False):
    t = "#" + "".join(HEX[d] for d in h)
    return t.upper() if upper else t


def parse_hash(t):
    return [HEX.index(c) for c in t.strip().lower()[1:]] if t.strip().startswith("#") else []


def run_hash(r, rid):
    cssutils.ser.prefs.useDefaults()
    cssutils.ser.prefs.minimizeColorHash = r["minimize"]
    text = hashtext(r["h"], upper=rid % 3 == 0)

    def f():
        v = css.ColorValue(text)
        ser = css.PropertyValue(text).cssText
        reser = css.PropertyValue(ser).cssText
        return {"out": "ok", "text": text, "channels": [v.red, v.green, v.blue], "ser": parse_hash(ser), "reser": parse_hash(reser)}
    out, o = outcome(f)
    cssutils.ser.prefs.useDefaults()
    return o if out == "ok" else {"out": out, "text": text, "channels": [], "ser": [0, 0, 0], "reser": [0, 0, 0]}


def pct(c):
    return {0: "0%", 51: "20%", 102: "40%", 153: "60%", 204: "80%", 255: "100%"}[c]


def colour_forms(r):
    R, G, B = r["rgb"]
    a = r["alpha"]
    forms = []
    if a == "1":
        forms += ["rgb(%d, %d, %d)" % (R, G, B), "rgb(%s,%s,%s)" % (pct(R), pct(G), pct(B)), "rgb( %d ,%d , %d )" % (R, G, B),
                  "#%02x%02x%02x" % (R, G, B), "#%02X%02X%02X" % (R, G, B)]
        if all(c % 17 == 0 for c in (R, G, B)):
            forms.append("#%x%x%x" % (R // 17, G // 17, B // 17))
        forms.append("rgba(%d, %d, %d, 1)" % (R, G, B))
        if R == G == B:
            forms.append("hsl(0, 0%%, %s)" % pct(R))
        prim = {(255, 0, 0): 0, (255, 255, 0): 60, (0, 255, 0): 120, (0, 255, 255): 180, (0, 0, 255): 240, (255, 0, 255): 300}
        if (R, G, B) in prim:
            forms += ["hsl(%d, 100%%, 50%%)" % prim[(R, G, B)], "hsla(%d,100%%,50%%,1)" % prim[(R, G, B)]]
            # the hue is an angle: it wraps round the colour circle
            forms += ["hsl(%d, 100%%, 50%%)" % (prim[(R, G, B)] + 360), "hsl(%d, 100%%, 50%%)" % (prim[(R, G, B)] - 360), "hsla(%d,100%%,50%%,1)" % (prim[(R, G, B)] + 720)]
    else:
        forms += ["rgba(%d, %d, %d, %s)" % (R, G, B, a), "rgba(%s,%s,%s,%s)" % (pct(R), pct(G), pct(B), a)]
        if R == G == B:
            forms.append("hsla(0, 0%%, %s, %s)" % (pct(R), a))
    return forms


def run_colour(r):
    forms = colour_forms(r) if r["kind"] == "colour" else [r["name"], r["name"].upper(), r["name"].capitalize()]
    obs = []
    for t in forms:
        def f():
            v = css.ColorValue(t)
            ser = css.PropertyValue(t).cssText
            v2 = css.ColorValue(ser)
            return {"out": "ok", "text": t, "channels": [v.red, v.green, v.blue], "alpha": format(float(v.alpha), "g"), "rechannels": [v2.red, v2.green, v2.blue]}
        out, o = outcome(f)
        obs.append(o if out == "ok" else {"out": out, "text": t, "channels": [], "alpha": "", "rechannels": []})
    return {"forms": obs}


def run_list(r, rid):
    seps = {" ": [" ", "  ", "\n"], ",": [",", " , ", ", "], "/": ["/", " / ", "/ "]}
    text = ""
    for i, c in enumerate(r["comps"]):
        text += seps[c][(rid + i) % 3] if i % 2 else c

    def f():
        pv = css.PropertyValue(text)
        comps = []
        prev_val = False
        for it in pv.seq:
            if it.type == "operator":
                comps.append(it.value)
                prev_val = False
            elif hasattr(it.value, "cssText") and not isinstance(it.value, css.CSSComment):
                if prev_val:
                    comps.append(" ")
                comps.append(it.value.cssText)
                prev_val = True
        ser = pv.cssText
        # the same text given to an object that held (and had been asked for) another value: its components are those of the new text
        old = css.PropertyValue("1px solid red")
        n0, first = len(old), [v.cssText for v in old]
        old.cssText = text
        if [v.cssText for v in old] != [v.cssText for v in pv] or len(old) != len(pv) or old.length != pv.length or old.cssText != ser:
            return {"out": "ReassignedValueKeepsOldComponents", "text": text, "comps": [v.cssText for v in old], "ser": old.cssText}
        st = css.CSSStyleDeclaration(cssText="margin: 1px 2px")
        pv2 = st.getProperty("margin").propertyValue
        n1 = len(pv2)
        st.setProperty("margin", text)
        pv3 = st.getProperty("margin").propertyValue
        if [v.cssText for v in pv3] != [v.cssText for v in pv]:
            return {"out": "ReassignedPropertyKeepsOldComponents", "text": text, "comps": [v.cssText for v in pv3], "ser": pv3.cssText}
        return {"out": "ok", "text": text, "comps": comps, "ser": ser}
    out, o = outcome(f)
    return o if out == "ok" else {"out": out, "text": text, "comps": [], "ser": ""}


def run_row(item):
    init()
    r = dict(item)
    rid = r.pop("id")
    k = r["kind"]
    if k == "number":
        o = run_number(r)
    elif k == "hash":
        o = run_hash(r, rid)
    elif k in ("colour", "named"):
        o = run_colour(r)
    else:
        o = run_list(r, rid)
    return {"id": rid, "item": dict(r, text=o.get("text", "")), "init": {"x": 0}, "steps": [{"a": r, "out": "ok", "post": o}]}
